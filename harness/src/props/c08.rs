//! C08 — flat or zero-flow windows give finite, neutral outputs — never NaN or garbage.
use super::util::*;
use crate::case::{Case, Failure, Op};
use crate::dd::tau;
use crate::gen;
use crate::ind::{self, B};
use crate::rec::Rec;
use crate::runner::{Runner, Tier};

/// how many equal inputs make the reference window degenerate
fn lookback(name: &str, ps: &[usize]) -> usize {
    let n = ps.first().copied().unwrap_or(1);
    match name {
        "RateOfChange" | "EfficiencyRatio" | "MoneyFlowIndex" => n + 1,
        "TrueRange" | "OnBalanceVolume" => 2,
        _ => n,
    }
}

fn range_of(name: &str) -> Option<(f64, f64)> {
    match name {
        "RelativeStrengthIndex" | "FastStochastic" | "SlowStochastic" | "MoneyFlowIndex" => Some((0.0, 100.0)),
        "EfficiencyRatio" => Some((0.0, 1.0)),
        _ => None,
    }
}

/// ops = active prefix, Mark, flat / zero-volume stretch.  extra[0] = 1.0 ⇒ zero-volume stretch
/// (prices keep moving, volume 0) instead of a flat price stretch.
pub fn check(case: &Case, rec: &mut Rec) -> Option<Failure> {
    let id = match mk(case, rec) {
        Ok(i) => i,
        Err(f) => return Some(f),
    };
    let zero_vol = case.extra.first().copied().unwrap_or(0.0) == 1.0;
    let mark = case.ops.iter().position(|o| *o == Op::Mark).unwrap_or(case.ops.len());
    // a reset() right before the stretch: everything (t, the magnitude budget, the window) restarts there
    let reset_before = mark > 0 && case.ops[mark - 1] == Op::Reset;
    let mut big = 0.0f64;
    let mut t = 0usize;
    for (i, op) in case.ops[..mark].iter().enumerate() {
        match op {
            Op::Next(x) => big = big.max(x.abs()),
            Op::Bar(b) => big = big.max(bar_mag(b)),
            Op::Reset => {
                big = 0.0;
                t = 0;
            }
            _ => {}
        }
        if *op != Op::Reset {
            t += 1;
        }
        if let Some(None) = feed(rec, id, op) {
            return fail(case, "panic", format!("panic in prefix at {}", i));
        }
    }
    let lb = lookback(&case.ind, &case.ps);
    let name = case.ind.as_str();
    // MoneyFlowIndex: condition number of the running totals (largest flow since reset ÷ window total)
    let mut mfi_ref = if name == "MoneyFlowIndex" { Some(super::c03::Ref::new(name, &case.ps)) } else { None };
    if let Some(rf) = mfi_ref.as_mut() {
        for op in case.ops[..mark].iter() {
            if *op == Op::Reset {
                *rf = super::c03::Ref::new(name, &case.ps);
            }
            if let Op::Bar(b) = op {
                rf.step(None, Some(b));
            }
        }
    }
    for (j, op) in case.ops[(mark + 1).min(case.ops.len())..].iter().enumerate() {
        match op {
            Op::Next(x) => big = big.max(x.abs()),
            Op::Bar(b) => big = big.max(bar_mag(b)),
            _ => {}
        }
        t += 1;
        let out = match feed(rec, id, op) {
            Some(Some(o)) => o,
            Some(None) => return fail(case, "panic", format!("panic in stretch at {}", j)),
            None => continue,
        };
        let k = j + 1; // inputs of the stretch seen so far
        let mut residue = false;
        if let (Some(rf), Op::Bar(b)) = (mfi_ref.as_mut(), op) {
            let jd = rf.step(None, Some(b));
            // reference total flow zero, or tiny against the largest flow that entered the totals
            residue = match &jd[0] {
                Some(j) => j.c > 1000.0,
                None => true,
            };
        }
        // every indicator, every step of the stretch: finite …
        let level_now = match op {
            Op::Next(x) => x.abs(),
            Op::Bar(b) => bar_mag(b),
            _ => 0.0,
        };
        // the window is degenerate once it holds only stretch inputs (always, when there is no prefix)
        let degenerate = k >= lb || mark == 0 || reset_before;
        for (q, v) in out.iter().enumerate() {
            // (at levels below 1e-290 a window that is not yet degenerate may legitimately underflow: not C08's claim)
            if !v.is_finite() && (degenerate || level_now >= 1e-290) {
                // CCI on a flat window at a level below 1e-300: the rounding residue that defeats the exact
                // `mad == 0.0` guard (known finding neutral-residue) is so small that `mad * 0.015` underflows to 0
                let sym = if name == "CommodityChannelIndex" && !zero_vol && degenerate && level_now < 1e-300 { "non-finite-residue-underflow" } else { "non-finite" };
                return fail(case, sym, format!("stretch step {} (t={}): output #{} = {} on a {} stretch", k, t, q, v, if zero_vol { "zero-volume" } else { "flat" }));
            }
        }
        // … and inside the documented range
        if let Some((lo, hi)) = range_of(name) {
            let v = out[0];
            if !(v >= lo - 1e-9 && v <= hi + 1e-9) {
                let sym = if residue { "out-of-range-residue" } else { "out-of-range" };
                return fail(case, sym, format!("stretch step {} (t={}): output {:e} outside [{}, {}] on a {} stretch{}", k, t, v, lo, hi, if zero_vol { "zero-volume" } else { "flat" }, if residue { " (running totals are cancellation residue: largest flow since reset > 1000 × window total)" } else { "" }));
            }
        }
        if zero_vol || k < lb {
            continue;
        }
        // the reference window is degenerate: neutral values
        let tol = tau(t) * big;
        let bad = |sym: &str, msg: String| fail(case, sym, format!("stretch step {} (t={}, window degenerate since {} equal inputs): {}", k, t, lb, msg));
        let r = match name {
            "FastStochastic" if out[0] != 50.0 => bad("neutral", format!("FastStochastic = {:e}, expected 50 exactly", out[0])),
            "CommodityChannelIndex" if out[0] != 0.0 => {
                // finite but non-zero: numerator and MAD are both rounding residue of the running means
                // with period 1 SMA(1) is bit-exactly its input (sum - old + new cancels exactly), so `tp - sma` is exactly 0
                // on the unchanged crate: the known residue finding only concerns periods >= 2
                bad(if case.ps[0] == 1 { "neutral" } else { "neutral-residue" }, format!("CCI = {:e}, expected 0 exactly (window flat)", out[0]))
            }
            "RateOfChange" if out[0] != 0.0 => bad("neutral", format!("RateOfChange = {:e}, expected 0 exactly", out[0])),
            "TrueRange" if out[0] != 0.0 => bad("neutral", format!("TrueRange = {:e}, expected 0 exactly", out[0])),
            "MeanAbsoluteDeviation" if !(out[0].abs() <= tol) => bad("neutral", format!("MAD = {:e} > τ(t)·M = {:e}", out[0], tol)),
            // below |x| ≈ 1.5e-154 the SQUARES the Welford update works with are subnormal (x² < 2.2e-308) and keep only a few
            // bits: own symptom, so that the known finding about that range does not mask a failure at ordinary levels
            "StandardDeviation" if !(out[0].abs() <= tau(t).sqrt() * big) => bad(if big < 1.5e-154 { "neutral-square-underflow" } else { "neutral" }, format!("SD = {:e} > sqrt(τ(t))·M = {:e}", out[0], tau(t).sqrt() * big)),
            "BollingerBands" if !((out[1] - out[0]).abs() <= tau(t).sqrt() * big * case.ms[0].abs().max(1.0) && (out[0] - out[2]).abs() <= tau(t).sqrt() * big * case.ms[0].abs().max(1.0)) => {
                bad(if big < 1.5e-154 { "neutral-square-underflow" } else { "neutral" }, format!("bands {:e}/{:e} not collapsed onto average {:e} within sqrt(τ)·M", out[1], out[2], out[0]))
            }
            _ => None,
        };
        if r.is_some() {
            return r;
        }
    }
    None
}

pub fn flat_op(name: &str, level: f64, vol: f64) -> Op {
    if ind::has_next_name(name) {
        Op::Next(level)
    } else {
        Op::Bar(B { o: level, h: level, l: level, c: level, v: vol })
    }
}

/// the same experiment at NEGATIVE prices: every price field negated (high and low swapped so that
/// low <= close <= high still holds), volumes unchanged
pub fn mirrored(c: &Case) -> Case {
    let mut m = c.clone();
    m.kind = format!("{}-negative", c.kind);
    for op in m.ops.iter_mut() {
        match op {
            Op::Next(x) => *x = -*x,
            Op::Bar(b) => *b = B { o: -b.o, h: -b.l, l: -b.h, c: -b.c, v: b.v },
            _ => {}
        }
    }
    m
}
/// indicators defined for negative prices (spreads, rates, the 2020 WTI future): all but MoneyFlowIndex, whose
/// money flow price × volume — and the sign-coded ring it is stored in — presupposes positive prices
pub fn accepts_negative(name: &str) -> bool {
    name != "MoneyFlowIndex"
}

pub fn generate(r: &mut Runner) {
    // periods 1..=8 exhaustively × stretch lengths × prefixes (incl. none, incl. 10^6 spikes)
    r.log_every = if r.tier == Tier::Quick { 23 } else { 211 };
    let long = if r.tier == Tier::Quick { 1200 } else { 6000 };
    for name in ind::NAMES {
        let (np, nm) = ind::arity(name).unwrap();
        for p in 1..=8usize {
            if np == 0 && p > 1 {
                break;
            }
            for variant in 0..6usize {
                let ps: Vec<usize> = (0..np).map(|j| if j == 0 { p } else { 1 + (p + j) % 5 }).collect();
                let ms: Vec<f64> = (0..nm).map(|_| 2.0).collect();
                let level = [1.0, 0.1, 100.0, 12345.678, 1e6, 3.3e-3][variant];
                let mut c = Case::new("C08", "flat", name, &ps, &ms);
                // prefix
                let plen = match variant { 0 => 0, 1 => 1, 2 => p + 1, _ => 3 * p + 7 };
                let scale = if variant >= 4 { 1e6 } else { 100.0 };
                let regime = ["walk", "spike", "alt", "walk", "spike", "mixed"][variant];
                let pre = gen::stream(&mut r.rng, regime, plen, true, scale);
                if ind::has_next_name(name) && variant % 2 == 0 {
                    c.ops = pre.into_iter().map(Op::Next).collect();
                } else {
                    c.ops = gen::valid_bars(&mut r.rng, &pre).into_iter().map(Op::Bar).collect();
                }
                c.ops.push(Op::Mark);
                let slen = if variant == 3 { long } else { 3 * p + 5 };
                let vol = [5.0, 0.0, 1.0, 1e3, 0.0, 7.0][variant];
                for _ in 0..slen {
                    c.ops.push(flat_op(name, level, vol));
                }
                // the same prefix and stretch at the negative level −level (short stretches only)
                if accepts_negative(name) && variant != 3 {
                    r.run(mirrored(&c), plen > 0);
                }
                r.run(c, plen > 0);
            }
            // zero-volume stretch with moving prices (MFI / OBV consume volume)
            if *name == "MoneyFlowIndex" || *name == "OnBalanceVolume" {
                for variant in 0..4usize {
                    let ps: Vec<usize> = (0..np).map(|_| p).collect();
                    let mut c = Case::new("C08", "zero-volume", name, &ps, &[]);
                    c.extra = vec![1.0];
                    let plen = [0, 2, p + 2, 4 * p + 3][variant];
                    let regime = ["walk", "spike", "walk", "spike"][variant];
                    let pre = gen::stream(&mut r.rng, regime, plen, true, 100.0);
                    let mut bars = gen::valid_bars(&mut r.rng, &pre);
                    if variant == 3 {
                        for b in bars.iter_mut().step_by(3) {
                            b.v *= 1e6;
                        }
                    }
                    c.ops = bars.into_iter().map(Op::Bar).collect();
                    c.ops.push(Op::Mark);
                    let xs = gen::stream(&mut r.rng, "walk", 3 * p + 6, true, 100.0);
                    for b in gen::valid_bars(&mut r.rng, &xs) {
                        c.ops.push(Op::Bar(B { v: 0.0, ..b }));
                    }
                    r.run(c, true);
                }
            }
        }
    }
    // extreme flat levels ("every flat price level"): subnormal, smallest normals, 1e-300, 1e-160 (squares underflow),
    // 1e150 (squares just below overflow), with no prefix or a short prefix at the same scale
    for name in ind::NAMES {
        let (np, nm) = ind::arity(name).unwrap();
        for p in [1usize, 2, 5, 14] {
            if np == 0 && p > 1 {
                break;
            }
            for (li, level) in [1e-310, 3e-308, 1e-300, 1e-160, 1e150, 2e154, 1e160, 1e300].into_iter().enumerate() {
                for with_prefix in [false, true] {
                    // levels whose SQUARE overflows: flat from the first input only (an active prefix at that scale
                    // overflows legitimately in every second-moment accumulator)
                    if with_prefix && level > 1e153 {
                        continue;
                    }
                    let ps: Vec<usize> = (0..np).map(|j| if j == 0 { p } else { 1 + (p + j) % 5 }).collect();
                    let ms: Vec<f64> = (0..nm).map(|_| 2.0).collect();
                    let mut c = Case::new("C08", "flat-extreme-level", name, &ps, &ms);
                    let plen = if with_prefix { 2 * p + 3 } else { 0 };
                    let pre = gen::stream(&mut r.rng, "walk", plen, true, level);
                    if ind::has_next_name(name) && li % 2 == 0 {
                        c.ops = pre.into_iter().map(Op::Next).collect();
                    } else {
                        c.ops = gen::valid_bars(&mut r.rng, &pre).into_iter().map(Op::Bar).collect();
                    }
                    c.ops.push(Op::Mark);
                    for _ in 0..(3 * p + 5) {
                        c.ops.push(flat_op(name, level, 2.0));
                    }
                    if accepts_negative(name) {
                        r.run(mirrored(&c), with_prefix);
                    }
                    r.run(c, with_prefix);
                }
            }
        }
    }
    // sampled larger periods
    let cases = if r.tier == Tier::Quick { 220 } else { 6600 };
    for i in 0..cases {
        let name = ind::NAMES[i % ind::NAMES.len()];
        let (ps, ms) = crate::diff::params_for(&mut r.rng, name, 128);
        let maxp = ps.iter().copied().max().unwrap_or(1);
        let mut c = Case::new("C08", "flat-sampled", name, &ps, &ms);
        let plen = r.rng.range(0, 400);
        let scale = *r.rng.pick(&[1.0, 100.0, 1e6]);
        let regime = *r.rng.pick(gen::REGIMES);
        let pre = gen::stream(&mut r.rng, regime, plen, true, scale);
        if ind::has_next_name(name) && r.rng.chance(0.5) {
            c.ops = pre.into_iter().map(Op::Next).collect();
        } else {
            c.ops = gen::valid_bars(&mut r.rng, &pre).into_iter().map(Op::Bar).collect();
        }
        c.ops.push(Op::Mark);
        let level = scale * (0.5 + r.rng.unit());
        let slen = maxp + 2 + r.rng.below(60);
        for _ in 0..slen {
            c.ops.push(flat_op(name, level, 3.0));
        }
        if accepts_negative(name) && r.rng.chance(0.3) {
            c = mirrored(&c);
        }
        r.run(c, plen > maxp);
    }
    // long active prefixes (state that only shows after many updates — counters, periodic re-syncs of running sums —
    // must not leak into the degenerate window): prefix length uniform in [n+1, maxpre] or N + n + j for a round count N
    // and j in 0..=3, so that a re-sync tied to a round number of updates / slides falls at the end of the prefix
    let maxpre = if r.tier == Tier::Quick { 5000 } else { 40000 };
    let rounds: Vec<usize> = [256usize, 512, 1000, 1024, 2000, 2048, 4096, 5000, 8192, 10000, 16384, 20000, 32768].iter().copied().filter(|n| *n <= maxpre).collect();
    let reps = if r.tier == Tier::Quick { 6 } else { 60 };
    for rep in 0..reps {
        for name in ind::NAMES {
            let (np, nm) = ind::arity(name).unwrap();
            let p = *r.rng.pick(&[1usize, 2, 3, 5, 8, 14, 20, 50, 128]);
            let ps: Vec<usize> = (0..np).map(|j| if j == 0 { p } else { 1 + (p + j) % 5 }).collect();
            let ms: Vec<f64> = (0..nm).map(|_| 2.0).collect();
            let plen = if rep % 2 == 0 { r.rng.range(p + 1, maxpre) } else { *r.rng.pick(&rounds) + p + r.rng.below(4) };
            let scale = *r.rng.pick(&[1.0, 100.0, 1e6]);
            let regime = *r.rng.pick(gen::REGIMES);
            let pre = gen::stream(&mut r.rng, regime, plen, true, scale);
            let mut c = Case::new("C08", "flat-after-long-prefix", name, &ps, &ms);
            if ind::has_next_name(name) && r.rng.chance(0.5) {
                c.ops = pre.into_iter().map(Op::Next).collect();
            } else {
                c.ops = gen::valid_bars(&mut r.rng, &pre).into_iter().map(Op::Bar).collect();
            }
            if r.rng.chance(0.25) {
                c.ops.push(Op::Reset);
                c.kind = format!("{}+reset", c.kind);
            }
            c.ops.push(Op::Mark);
            let level = scale * (0.5 + r.rng.unit());
            for _ in 0..(p + 2 + r.rng.below(20)) {
                c.ops.push(flat_op(name, level, 3.0));
            }
            if accepts_negative(name) && r.rng.chance(0.25) {
                c = mirrored(&c);
            }
            r.run(c, true);
        }
    }
}

pub const RULE: &str = "for all 22 indicators and periods 1..=8: six prefix variants (none, 1 input, n+1, 3n+7 inputs; walk/alt/spike regimes incl. x10^6 spikes, scalars or valid bars) followed by a flat stretch of 3n+5 inputs (one variant: 1200 quick / 6000 thorough inputs, long enough for exponential averages to underflow) at levels {1, 0.1, 100, 12345.678, 1e6, 3.3e-3}, volumes incl. 0; plus zero-volume stretches with moving prices for MFI/OBV after prefixes with x10^6 volumes; plus flat stretches at the extreme levels {1e-310, 3e-308, 1e-300, 1e-160, 1e150} for periods 1, 2, 5, 14 with and without a prefix at the same scale, and at {2e154, 1e160, 1e300} (the square of the level overflows, sums do not) from the first input of a fresh instance; plus sampled periods to 128 after histories to 400 inputs. NEGATIVE flat levels: every short-stretch case of the first stage and every extreme-level case is run a second time mirrored (all prices negated, high/low swapped, volumes kept: levels -1, -0.1, -100, -1e6, -3.3e-3, -1e-310 .. -1e300, prefixes negative too), and 30% of the sampled cases are mirrored, for all indicators except MoneyFlowIndex (money flow presupposes positive prices). Long prefixes (6 quick / 60 thorough rounds over all 22 indicators, a quarter mirrored): period from {1,2,3,5,8,14,20,50,128}, an active prefix in one of 9 regimes at scale {1,100,1e6} of length uniform in [n+1, 5000] (thorough 40000) or N+n+j with N a round count from {256,512,1000,1024,2000,2048,4096,5000 (thorough also 8192..32768)} and j in 0..=3, then a flat stretch of n+2..n+21 inputs. A quarter of the long-prefix cases call reset() right before the stretch (the window is then degenerate from the first stretch input, t and the magnitude budget restart). Every step of the stretch: outputs finite and inside the documented range; once the reference window is degenerate (n, or n+1 for ROC/ER/MFI, equal inputs): FastStochastic 50, CCI 0, ROC 0, TrueRange 0 exactly, MAD <= tau(t)*M, SD <= sqrt(tau(t))*M, Bollinger bands within sqrt(tau(t))*M of the average. Non-trivial = non-empty active prefix.";
