//! Input generators (all driven by `Rng`).  Finite "market" streams of several regimes,
//! small alphabets with ties / sign changes / zero, and a separate malformed stream.
use crate::ind::B;
use crate::rng::Rng;

pub const REGIMES: &[&str] = &["walk", "alt", "spike", "plateau", "saw", "alphabet", "flat", "mixed", "trend"];

pub const ALPHABET: &[f64] = &[-2.0, -1.0, -0.0, 0.0, 1.0, 2.0, 3.0, 0.5, 1e6, -1e6];
pub const POS_ALPHABET: &[f64] = &[1.0, 2.0, 3.0, 0.5, 10.0, 1e6, 1.5];
pub const WEIRD: &[f64] = &[
    f64::NAN,
    f64::INFINITY,
    f64::NEG_INFINITY,
    f64::MAX,
    f64::MIN,
    f64::MIN_POSITIVE,
    5e-324,
    -5e-324,
    -0.0,
    0.0,
    1e308,
    -1e308,
];

/// a finite stream of `n` values; `positive` restricts to strictly positive prices
pub fn stream(rng: &mut Rng, regime: &str, n: usize, positive: bool, scale: f64) -> Vec<f64> {
    let mut v = Vec::with_capacity(n);
    let base = scale * (1.0 + rng.unit() * 9.0);
    match regime {
        "walk" => {
            let mut x = base;
            for _ in 0..n {
                let step = (rng.unit() - 0.5) * 0.04 * base;
                x += step;
                if positive && x <= base * 1e-3 {
                    x = base * 1e-3 + step.abs();
                }
                if rng.chance(0.1) {
                    // tie with previous
                    if let Some(&p) = v.last() {
                        x = p;
                    }
                }
                v.push(x);
            }
        }
        "alt" => {
            let (lo, hi) = (base, base * 1000.0);
            for i in 0..n {
                let jitter = 1.0 + rng.unit() * 1e-3;
                v.push(if i % 2 == 0 { lo * jitter } else { hi * jitter });
            }
        }
        "spike" => {
            let mut x = base;
            for _ in 0..n {
                x += (rng.unit() - 0.5) * 0.02 * base;
                if positive && x <= 0.0 {
                    x = base * 0.01;
                }
                if rng.chance(0.02) {
                    v.push(x * 1e6);
                } else {
                    v.push(x);
                }
            }
        }
        "plateau" => {
            let mut x = base;
            let mut i = 0;
            while i < n {
                let len = rng.range(1, 40);
                for _ in 0..len.min(n - i) {
                    v.push(x);
                }
                i += len;
                x = base * (0.5 + rng.unit());
            }
        }
        "saw" => {
            let p = rng.range(2, 17);
            for i in 0..n {
                v.push(base * (1.0 + (i % p) as f64 / p as f64));
            }
        }
        "flat" => {
            for _ in 0..n {
                v.push(base);
            }
        }
        "trend" => {
            let up = rng.chance(0.5);
            let mut x = if up { base } else { base * 100.0 };
            for _ in 0..n {
                if up {
                    x *= 1.0 + rng.unit() * 0.01;
                } else {
                    x *= 1.0 - rng.unit() * 0.01;
                }
                v.push(x);
            }
        }
        "alphabet" => {
            let a = if positive { POS_ALPHABET } else { ALPHABET };
            let k = rng.range(2, a.len());
            for _ in 0..n {
                v.push(a[rng.below(k)] * if positive { scale } else { 1.0 });
            }
        }
        _ => {
            // mixed: segments of other regimes
            let mut i = 0;
            while i < n {
                let len = rng.range(1, 60).min(n - i);
                let r = *rng.pick(&["walk", "alt", "spike", "plateau", "saw", "alphabet", "flat", "trend"]);
                v.extend(stream(rng, r, len, positive, scale));
                i += len;
            }
        }
    }
    if !positive && regime != "alphabet" && rng.chance(0.5) {
        // any sign: shift the stream around zero
        let shift = base * 1.0;
        for x in v.iter_mut() {
            *x -= shift;
        }
    }
    v
}

/// a valid bar around a price path: low <= open, close <= high, volume >= 0
pub fn valid_bars(rng: &mut Rng, closes: &[f64]) -> Vec<B> {
    let mut out = Vec::with_capacity(closes.len());
    let mut prev = closes.first().copied().unwrap_or(1.0);
    for &c in closes {
        let o = if rng.chance(0.3) { prev } else { prev + (c - prev) * rng.unit() };
        let span = (c - o).abs().max(c.abs() * 1e-3 * rng.unit());
        let mode = rng.below(10);
        let (mut h, mut l) = (o.max(c) + span * rng.unit(), o.min(c) - span * rng.unit());
        if mode == 0 {
            // one-price bar
            h = c;
            l = c;
        } else if mode == 1 {
            h = o.max(c);
        } else if mode == 2 {
            l = o.min(c);
        }
        let o = if mode == 0 { c } else { o };
        let v = match rng.below(8) {
            0 => 0.0,
            1 => 1.0,
            2 => 1e9 * rng.unit(),
            _ => 1000.0 * rng.unit(),
        };
        out.push(B { o, h, l, c, v });
        prev = c;
    }
    out
}

/// five independent fields (not necessarily a consistent OHLC bar), finite
pub fn free_bar(rng: &mut Rng, scale: f64) -> B {
    let mut f = |rng: &mut Rng| -> f64 {
        if rng.chance(0.3) {
            *rng.pick(ALPHABET)
        } else {
            (rng.unit() - 0.3) * scale
        }
    };
    B { o: f(rng), h: f(rng), l: f(rng), c: f(rng), v: f(rng) }
}

pub fn weird(rng: &mut Rng) -> f64 {
    *rng.pick(WEIRD)
}

pub fn weird_bar(rng: &mut Rng, scale: f64) -> B {
    let mut b = free_bar(rng, scale);
    let k = rng.range(1, 3);
    for _ in 0..k {
        let w = weird(rng);
        match rng.below(5) {
            0 => b.o = w,
            1 => b.h = w,
            2 => b.l = w,
            3 => b.c = w,
            _ => b.v = w,
        }
    }
    b
}

/// periods: all of 1..=8 often, then sampled up to `maxp`
pub fn period(rng: &mut Rng, maxp: usize) -> usize {
    match rng.below(10) {
        0..=5 => rng.range(1, 8.min(maxp)),
        6..=7 => rng.range(1, 32.min(maxp)),
        8 => rng.range(1, 200.min(maxp)),
        _ => rng.range(1, maxp),
    }
}

pub fn multiplier(rng: &mut Rng) -> f64 {
    *rng.pick(&[0.0, 0.5, 1.0, 2.0, 3.0, 2.5, 10.0, 1e3])
}
