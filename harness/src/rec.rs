//! Recorder: executes operations on the REAL indicators (panics caught) and writes the
//! op-line protocol consumed by the Lean driver `tars_drv` (DESIGN Appendix A).
use crate::ind::{Ind, B};
use std::collections::BTreeMap;
use std::io::Write;
use std::panic::{catch_unwind, AssertUnwindSafe};

pub fn hexf(x: f64) -> String {
    if x.is_nan() {
        "nan".to_string()
    } else {
        format!("{:016x}", x.to_bits())
    }
}
pub fn parse_hexf(s: &str) -> f64 {
    if s == "nan" {
        f64::NAN
    } else {
        f64::from_bits(u64::from_str_radix(s, 16).unwrap())
    }
}

pub fn fnv(bytes: &[u8]) -> u64 {
    let mut h: u64 = 0xcbf29ce484222325;
    for b in bytes {
        h ^= *b as u64;
        h = h.wrapping_mul(0x100000001b3);
    }
    h
}

#[derive(Debug, Clone, PartialEq)]
pub enum NewRes {
    Ok,
    Err,
    Panic,
}

pub struct Rec {
    pub w: Option<Box<dyn Write>>,
    pub insts: Vec<Option<Ind>>,
    pub taint: Vec<bool>,
    pub lines: u64,
    pub panics: u64,
    pub opcount: BTreeMap<&'static str, u64>,
}

impl Rec {
    pub fn new(w: Option<Box<dyn Write>>) -> Rec {
        Rec { w, insts: vec![], taint: vec![], lines: 0, panics: 0, opcount: BTreeMap::new() }
    }
    fn emit(&mut self, op: &'static str, lhs: String, rhs: String) {
        self.lines += 1;
        *self.opcount.entry(op).or_insert(0) += 1;
        if let Some(w) = self.w.as_mut() {
            writeln!(w, "{} => {}", lhs, rhs).unwrap();
        }
    }
    pub fn comment(&mut self, s: &str) {
        if let Some(w) = self.w.as_mut() {
            writeln!(w, "# {}", s).unwrap();
        }
    }
    fn alloc(&mut self) -> usize {
        self.insts.push(None);
        self.taint.push(false);
        self.insts.len() - 1
    }
    pub fn get(&self, id: usize) -> Option<&Ind> {
        self.insts[id].as_ref()
    }
    pub fn new_ind(&mut self, name: &str, ps: &[usize], ms: &[f64]) -> (usize, NewRes) {
        let id = self.alloc();
        let r = catch_unwind(AssertUnwindSafe(|| Ind::create(name, ps, ms)));
        let mut lhs = format!("new {} {} {}", id, name, ps.len());
        for p in ps {
            lhs.push_str(&format!(" {}", p));
        }
        lhs.push_str(&format!(" {}", ms.len()));
        for m in ms {
            lhs.push_str(&format!(" {}", hexf(*m)));
        }
        let res = match r {
            Ok(Some(Ok(i))) => {
                self.insts[id] = Some(i);
                if ms.iter().any(|m| !m.is_finite()) {
                    self.taint[id] = true;
                }
                NewRes::Ok
            }
            Ok(Some(Err(_))) => NewRes::Err,
            Ok(None) => panic!("harness: bad create call {} {:?} {:?}", name, ps, ms),
            Err(_) => {
                self.panics += 1;
                NewRes::Panic
            }
        };
        let rhs = match res {
            NewRes::Ok => "ok",
            NewRes::Err => "err",
            NewRes::Panic => "panic",
        };
        self.emit("new", lhs, rhs.to_string());
        (id, res)
    }
    pub fn default_ind(&mut self, name: &str) -> usize {
        let id = self.alloc();
        let r = catch_unwind(AssertUnwindSafe(|| Ind::default_of(name)));
        let rhs = match r {
            Ok(Some(i)) => {
                self.insts[id] = Some(i);
                "ok"
            }
            _ => {
                self.panics += 1;
                "panic"
            }
        };
        self.emit("default", format!("default {} {}", id, name), rhs.to_string());
        id
    }
    fn outs(&mut self, id: usize, r: std::thread::Result<Vec<f64>>, op: &'static str, lhs: String) -> Option<Vec<f64>> {
        match r {
            Ok(v) => {
                if v.iter().any(|x| x.is_nan()) {
                    self.taint[id] = true;
                }
                // MoneyFlowIndex branches on the sign bit of a NaN, which the model does not
                // carry (canonical NaN): once tainted only "did not panic" is compared.
                let wildcard = self.taint[id] && self.insts[id].as_ref().map(|i| i.name() == "MoneyFlowIndex").unwrap_or(false);
                let mut rhs = format!("out {}", v.len());
                if wildcard {
                    rhs = "out *".into();
                } else {
                    for x in &v {
                        rhs.push(' ');
                        rhs.push_str(&hexf(*x));
                    }
                }
                self.emit(op, lhs, rhs);
                Some(v)
            }
            Err(_) => {
                self.panics += 1;
                self.emit(op, lhs, "panic".into());
                self.drop_(id);
                None
            }
        }
    }
    pub fn next(&mut self, id: usize, x: f64) -> Option<Vec<f64>> {
        if !x.is_finite() {
            self.taint[id] = true;
        }
        let mut inst = self.insts[id].take().expect("live instance");
        let r = catch_unwind(AssertUnwindSafe(|| inst.next(x)));
        self.insts[id] = Some(inst);
        self.outs(id, r, "next", format!("next {} {}", id, hexf(x)))
    }
    pub fn bar(&mut self, id: usize, b: &B) -> Option<Vec<f64>> {
        if !(b.o.is_finite() && b.h.is_finite() && b.l.is_finite() && b.c.is_finite() && b.v.is_finite()) {
            self.taint[id] = true;
        }
        let mut inst = self.insts[id].take().expect("live instance");
        let r = catch_unwind(AssertUnwindSafe(|| inst.next_bar(b)));
        self.insts[id] = Some(inst);
        self.outs(id, r, "bar", format!("bar {} {} {} {} {} {}", id, hexf(b.o), hexf(b.h), hexf(b.l), hexf(b.c), hexf(b.v)))
    }
    pub fn reset(&mut self, id: usize) -> bool {
        let mut inst = self.insts[id].take().expect("live instance");
        let r = catch_unwind(AssertUnwindSafe(|| inst.reset()));
        self.insts[id] = Some(inst);
        match r {
            Ok(()) => {
                self.emit("reset", format!("reset {}", id), "ok".into());
                true
            }
            Err(_) => {
                self.panics += 1;
                self.emit("reset", format!("reset {}", id), "panic".into());
                self.drop_(id);
                false
            }
        }
    }
    /// logs FNV-1a hash and length of the bincode bytes; returns the bytes
    pub fn state(&mut self, id: usize) -> Vec<u8> {
        let bytes = self.insts[id].as_ref().expect("live").ser();
        let rhs = if self.taint[id] { "*".to_string() } else { format!("{:016x} {}", fnv(&bytes), bytes.len()) };
        self.emit("state", format!("state {}", id), rhs);
        bytes
    }
    pub fn display(&mut self, id: usize) -> String {
        let inst = self.insts[id].as_ref().expect("live");
        let d = inst.display();
        let m = match inst.multiplier() {
            Some(m) => format!("{}", m),
            None => "-".to_string(),
        };
        self.emit("display", format!("display {} {}", id, m), d.clone());
        d
    }
    pub fn period(&mut self, id: usize) -> Option<usize> {
        let p = self.insts[id].as_ref().expect("live").period();
        let rhs = match p {
            Some(p) => format!("{}", p),
            None => "none".into(),
        };
        self.emit("period", format!("period {}", id), rhs);
        p
    }
    pub fn multiplier(&mut self, id: usize) -> Option<f64> {
        let p = self.insts[id].as_ref().expect("live").multiplier();
        let rhs = match p {
            Some(p) => hexf(p),
            None => "none".into(),
        };
        self.emit("multiplier", format!("multiplier {}", id), rhs);
        p
    }
    pub fn clone_(&mut self, id: usize) -> usize {
        let c = self.insts[id].as_ref().expect("live").clone();
        let nid = self.alloc();
        self.insts[nid] = Some(c);
        self.taint[nid] = self.taint[id];
        self.emit("clone", format!("clone {} {}", id, nid), "ok".into());
        nid
    }
    /// `Clone::clone_from`: the live instance `dst` (any history, same or different parameters) is overwritten
    /// with a copy of `src`.  For the model this is exactly "slot dst := copy of src", which the driver's
    /// `clone <src> <dst>` line already expresses (it overwrites an occupied slot), so no new op is needed.
    /// false = the call panicked (dst is dropped, nothing is logged for the model).
    pub fn clone_from(&mut self, dst: usize, src: usize) -> bool {
        let mut d = self.insts[dst].take().expect("live instance");
        let s = self.insts[src].take().expect("live instance");
        let r = catch_unwind(AssertUnwindSafe(|| d.clone_from_ind(&s)));
        self.insts[src] = Some(s);
        match r {
            Ok(()) => {
                self.insts[dst] = Some(d);
                self.taint[dst] = self.taint[src];
                self.emit("clone_from", format!("clone {} {}", src, dst), "ok".into());
                true
            }
            Err(_) => {
                self.panics += 1;
                drop(d);
                self.drop_(dst);
                false
            }
        }
    }
    /// serialize + deserialize through bincode; the copy gets a new id
    pub fn serde(&mut self, id: usize) -> usize {
        let inst = self.insts[id].as_ref().expect("live");
        let bytes = inst.ser();
        let back = Ind::de(inst.name(), &bytes);
        let nid = self.alloc();
        let tainted = self.taint[id];
        let rhs = match back {
            Some(i) => {
                self.insts[nid] = Some(i);
                self.taint[nid] = tainted;
                if tainted { "*" } else { "ok" }
            }
            None => "decode-failed",
        };
        self.emit("serde", format!("serde {} {}", id, nid), rhs.into());
        nid
    }
    pub fn drop_(&mut self, id: usize) {
        self.insts[id] = None;
        self.emit("drop", format!("drop {}", id), "ok".into());
    }
    pub fn flush(&mut self) {
        if let Some(w) = self.w.as_mut() {
            w.flush().unwrap();
        }
    }
}
