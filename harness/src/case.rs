//! A property *case* = one self-contained, replayable experiment on the real crate.
use crate::ind::B;
use crate::rec::{hexf, parse_hexf};

#[derive(Clone, Debug, PartialEq)]
pub enum Op {
    Next(f64),
    Bar(B),
    Reset,
    /// property-specific split point (reset-and-compare, clone, checkpoint, …)
    Mark,
}

#[derive(Clone, Debug)]
pub struct Case {
    pub prop: String,
    pub kind: String,
    pub ind: String,
    pub ps: Vec<usize>,
    pub ms: Vec<f64>,
    pub extra: Vec<f64>,
    pub ops: Vec<Op>,
}

#[derive(Clone, Debug)]
pub struct Failure {
    /// coarse symptom key, used to match known findings: `<Indicator>:<symptom>`
    pub key: String,
    pub msg: String,
}

impl Case {
    pub fn new(prop: &str, kind: &str, ind: &str, ps: &[usize], ms: &[f64]) -> Case {
        Case { prop: prop.into(), kind: kind.into(), ind: ind.into(), ps: ps.to_vec(), ms: ms.to_vec(), extra: vec![], ops: vec![] }
    }
    pub fn encode(&self) -> String {
        let ps: Vec<String> = self.ps.iter().map(|p| p.to_string()).collect();
        let ms: Vec<String> = self.ms.iter().map(|m| hexf(*m)).collect();
        let ex: Vec<String> = self.extra.iter().map(|m| hexf(*m)).collect();
        let ops: Vec<String> = self
            .ops
            .iter()
            .map(|o| match o {
                Op::Next(x) => format!("n{}", hexf(*x)),
                Op::Bar(b) => format!("b{},{},{},{},{}", hexf(b.o), hexf(b.h), hexf(b.l), hexf(b.c), hexf(b.v)),
                Op::Reset => "r".to_string(),
                Op::Mark => "m".to_string(),
            })
            .collect();
        format!("{}|{}|{}|{}|{}|{}|{}", self.prop, self.kind, self.ind, ps.join(","), ms.join(","), ex.join(","), ops.join(" "))
    }
    pub fn decode(s: &str) -> Option<Case> {
        let parts: Vec<&str> = s.split('|').collect();
        if parts.len() != 7 {
            return None;
        }
        let list = |x: &str| -> Vec<String> { x.split(',').filter(|t| !t.is_empty()).map(|t| t.to_string()).collect() };
        let ps = list(parts[3]).iter().map(|t| t.parse().ok()).collect::<Option<Vec<usize>>>()?;
        let ms = list(parts[4]).iter().map(|t| parse_hexf(t)).collect();
        let extra = list(parts[5]).iter().map(|t| parse_hexf(t)).collect();
        let mut ops = vec![];
        for t in parts[6].split(' ').filter(|t| !t.is_empty()) {
            let (k, rest) = t.split_at(1);
            match k {
                "n" => ops.push(Op::Next(parse_hexf(rest))),
                "b" => {
                    let f: Vec<f64> = rest.split(',').map(parse_hexf).collect();
                    if f.len() != 5 {
                        return None;
                    }
                    ops.push(Op::Bar(B { o: f[0], h: f[1], l: f[2], c: f[3], v: f[4] }));
                }
                "r" => ops.push(Op::Reset),
                "m" => ops.push(Op::Mark),
                _ => return None,
            }
        }
        Some(Case { prop: parts[0].into(), kind: parts[1].into(), ind: parts[2].into(), ps, ms, extra, ops })
    }
    /// human-readable rendering for evidence samples
    pub fn pretty(&self, max_ops: usize) -> String {
        let ops: Vec<String> = self
            .ops
            .iter()
            .take(max_ops)
            .map(|o| match o {
                Op::Next(x) => format!("{}", x),
                Op::Bar(b) => format!("[o{} h{} l{} c{} v{}]", b.o, b.h, b.l, b.c, b.v),
                Op::Reset => "RESET".into(),
                Op::Mark => "MARK".into(),
            })
            .collect();
        format!(
            "{}/{} {}({:?}{}) extra={:?} ops[{}]: {}{}",
            self.prop,
            self.kind,
            self.ind,
            self.ps,
            if self.ms.is_empty() { String::new() } else { format!(", {:?}", self.ms) },
            self.extra,
            self.ops.len(),
            ops.join(" "),
            if self.ops.len() > max_ops { " …" } else { "" }
        )
    }
}
