//! Double-double arithmetic (~106-bit significand): the from-scratch reference
//! evaluator of the harness.  Its error (~1e-31 relative) is negligible against the
//! properties' tolerances (>= 1e-12), so references are "exact" for every verdict.
//! Sampled validation only — never called a proof.
#[derive(Clone, Copy, Debug, PartialEq)]
pub struct DD {
    pub hi: f64,
    pub lo: f64,
}

#[inline]
fn two_sum(a: f64, b: f64) -> (f64, f64) {
    let s = a + b;
    let bb = s - a;
    let e = (a - (s - bb)) + (b - bb);
    (s, e)
}
#[inline]
fn quick_two_sum(a: f64, b: f64) -> (f64, f64) {
    let s = a + b;
    let e = b - (s - a);
    (s, e)
}
#[inline]
fn two_prod(a: f64, b: f64) -> (f64, f64) {
    let p = a * b;
    let e = a.mul_add(b, -p);
    (p, e)
}

impl DD {
    pub const ZERO: DD = DD { hi: 0.0, lo: 0.0 };
    pub fn from(x: f64) -> DD {
        DD { hi: x, lo: 0.0 }
    }
    pub fn to_f64(self) -> f64 {
        self.hi + self.lo
    }
    pub fn is_finite(self) -> bool {
        self.hi.is_finite() && self.lo.is_finite()
    }
    pub fn add(self, o: DD) -> DD {
        let (s, e) = two_sum(self.hi, o.hi);
        let e = e + (self.lo + o.lo);
        let (hi, lo) = quick_two_sum(s, e);
        DD { hi, lo }
    }
    pub fn neg(self) -> DD {
        DD { hi: -self.hi, lo: -self.lo }
    }
    pub fn sub(self, o: DD) -> DD {
        self.add(o.neg())
    }
    pub fn mul(self, o: DD) -> DD {
        let (p, e) = two_prod(self.hi, o.hi);
        let e = e + (self.hi * o.lo + self.lo * o.hi);
        let (hi, lo) = quick_two_sum(p, e);
        DD { hi, lo }
    }
    pub fn div(self, o: DD) -> DD {
        let q1 = self.hi / o.hi;
        let r = self.sub(o.mul(DD::from(q1)));
        let q2 = r.hi / o.hi;
        let r = r.sub(o.mul(DD::from(q2)));
        let q3 = r.hi / o.hi;
        let (s, e) = quick_two_sum(q1, q2);
        DD { hi: s, lo: e }.add(DD::from(q3))
    }
    pub fn abs(self) -> DD {
        if self.hi < 0.0 || (self.hi == 0.0 && self.lo < 0.0) {
            self.neg()
        } else {
            self
        }
    }
    pub fn lt(self, o: DD) -> bool {
        self.hi < o.hi || (self.hi == o.hi && self.lo < o.lo)
    }
    pub fn le(self, o: DD) -> bool {
        self.hi < o.hi || (self.hi == o.hi && self.lo <= o.lo)
    }
    pub fn max(self, o: DD) -> DD {
        if self.lt(o) {
            o
        } else {
            self
        }
    }
    pub fn is_zero(self) -> bool {
        self.hi == 0.0 && self.lo == 0.0
    }
    pub fn fromu(n: usize) -> DD {
        // exact for n < 2^53 (all periods used)
        DD::from(n as f64)
    }
}

pub fn dd(x: f64) -> DD {
    DD::from(x)
}

/// |a - b| as f64 where a is an observed f64 and b the DD reference
pub fn absdiff(a: f64, b: DD) -> f64 {
    DD::from(a).sub(b).abs().to_f64()
}

/// τ(t) = 1e-12 + 1e-15·t^1.5
pub fn tau(t: usize) -> f64 {
    let t = t as f64;
    1e-12 + 1e-15 * t * t.sqrt()
}
