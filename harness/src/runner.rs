//! Runs cases, shrinks failures, collects coverage statistics for the evidence file.
use crate::case::{Case, Failure, Op};
use crate::rec::Rec;
use crate::rng::Rng;
use std::collections::{BTreeMap, HashSet};

#[derive(Clone, Copy, PartialEq, Debug)]
pub enum Tier {
    Quick,
    Thorough,
}

pub type CheckFn = fn(&Case, &mut Rec) -> Option<Failure>;

pub struct Runner {
    pub rec: Rec,
    pub rng: Rng,
    pub tier: Tier,
    pub check: CheckFn,
    pub evaluations: u64,
    pub steps: u64,
    pub distinct: HashSet<u64>,
    pub nontrivial: u64,
    pub logged_cases: u64,
    pub samples: Vec<String>,
    pub failures: Vec<(Case, Failure)>,
    pub dist: BTreeMap<String, u64>,
    pub log_every: u64,
    pub exhaustive: bool,
    seen_keys: HashSet<String>,
    writer: Option<Box<dyn std::io::Write>>,
}

fn hash_str(s: &str) -> u64 {
    crate::rec::fnv(s.as_bytes())
}

impl Runner {
    pub fn new(w: Option<Box<dyn std::io::Write>>, seed: u64, tier: Tier, check: CheckFn) -> Runner {
        Runner {
            rec: Rec::new(None),
            rng: Rng::new(seed),
            tier,
            check,
            evaluations: 0,
            steps: 0,
            distinct: HashSet::new(),
            nontrivial: 0,
            logged_cases: 0,
            samples: vec![],
            failures: vec![],
            dist: BTreeMap::new(),
            log_every: 1,
            exhaustive: false,
            seen_keys: HashSet::new(),
            writer: w,
        }
    }
    pub fn count(&mut self, k: &str) {
        *self.dist.entry(k.to_string()).or_insert(0) += 1;
    }
    pub fn countn(&mut self, k: &str, n: u64) {
        *self.dist.entry(k.to_string()).or_insert(0) += n;
    }
    /// run one case; `nontrivial` = the generator's own verdict by the property's rule
    pub fn run(&mut self, case: Case, nontrivial: bool) {
        self.evaluations += 1;
        self.steps += case.ops.len() as u64;
        let enc = case.encode();
        let fresh = self.distinct.insert(hash_str(&enc));
        if fresh && nontrivial {
            self.nontrivial += 1;
        }
        self.count(&format!("ind:{}", case.ind));
        self.count(&format!("kind:{}", case.kind));
        let lb = match case.ops.len() {
            0..=4 => "len:0-4",
            5..=16 => "len:5-16",
            17..=64 => "len:17-64",
            65..=512 => "len:65-512",
            _ => "len:513+",
        };
        self.count(lb);
        if let Some(p) = case.ps.first() {
            let pb = match *p {
                0 => "period:0",
                1 => "period:1",
                2..=5 => "period:2-5",
                6..=16 => "period:6-16",
                17..=128 => "period:17-128",
                129..=1024 => "period:129-1024",
                _ => "period:1025+",
            };
            self.count(pb);
        }
        // log a subset of the cases for the model differential
        let log = self.writer.is_some() && (self.evaluations % self.log_every == 0);
        if log {
            self.rec.w = self.writer.take();
            self.rec.comment(&format!("case {}", case.pretty(6)));
            self.logged_cases += 1;
        }
        // a panic escaping the oracle itself (e.g. inside a long un-recorded run) is a finding, not a crash
        let chk = self.check;
        let recref = &mut self.rec;
        let r = match std::panic::catch_unwind(std::panic::AssertUnwindSafe(|| chk(&case, recref))) {
            Ok(r) => r,
            Err(_) => Some(Failure { key: format!("{}:panic", case.ind), msg: "a call into the crate panicked (caught around the whole case)".into() }),
        };
        // free instances
        self.rec.insts.clear();
        self.rec.taint.clear();
        if log {
            self.writer = self.rec.w.take();
        }
        if self.samples.len() < 6 && (self.evaluations.is_power_of_two() || self.samples.is_empty()) {
            self.samples.push(case.pretty(12));
        }
        // a panic inside next/reset is C12's (and, for constructors, C11's) violation: the other oracles skip such a case
        let r = match r {
            Some(f) if f.key.ends_with(":panic") && case.prop != "C12" => {
                self.count("panic-cases-skipped");
                None
            }
            o => o,
        };
        if let Some(f) = r {
            self.count("failures");
            if self.seen_keys.insert(f.key.clone()) {
                let (c2, f2) = self.shrink(case, f);
                self.failures.push((c2, f2));
            }
        }
    }
    /// delta-debugging on the op list (same failure key must persist)
    fn shrink(&mut self, case: Case, f: Failure) -> (Case, Failure) {
        let mut best = case;
        let mut bf = f;
        let mut rec = Rec::new(None);
        let mut budget = 400;
        let mut chunk = (best.ops.len() / 2).max(1);
        while chunk >= 1 && budget > 0 {
            let mut i = 0;
            let mut progressed = false;
            while i < best.ops.len() && budget > 0 {
                let end = (i + chunk).min(best.ops.len());
                // never remove marks
                if best.ops[i..end].iter().any(|o| *o == Op::Mark) {
                    i = end;
                    continue;
                }
                let mut cand = best.clone();
                cand.ops.drain(i..end);
                budget -= 1;
                rec.insts.clear();
                rec.taint.clear();
                match (self.check)(&cand, &mut rec) {
                    Some(f2) if f2.key == bf.key => {
                        best = cand;
                        bf = f2;
                        progressed = true;
                    }
                    _ => {
                        i = end;
                    }
                }
            }
            if !progressed {
                if chunk == 1 {
                    break;
                }
                chunk /= 2;
            }
        }
        (best, bf)
    }
    pub fn finish(&mut self) {
        if let Some(w) = self.writer.as_mut() {
            w.flush().unwrap();
        }
    }
}
