//! Counting global allocator: live heap bytes of the harness process (C18).
use std::alloc::{GlobalAlloc, Layout, System};
use std::sync::atomic::{AtomicIsize, Ordering};

pub struct Counting;
static LIVE: AtomicIsize = AtomicIsize::new(0);

unsafe impl GlobalAlloc for Counting {
    unsafe fn alloc(&self, l: Layout) -> *mut u8 {
        let p = System.alloc(l);
        if !p.is_null() {
            LIVE.fetch_add(l.size() as isize, Ordering::Relaxed);
        }
        p
    }
    unsafe fn dealloc(&self, p: *mut u8, l: Layout) {
        System.dealloc(p, l);
        LIVE.fetch_sub(l.size() as isize, Ordering::Relaxed);
    }
    unsafe fn realloc(&self, p: *mut u8, l: Layout, new_size: usize) -> *mut u8 {
        let q = System.realloc(p, l, new_size);
        if !q.is_null() {
            LIVE.fetch_add(new_size as isize - l.size() as isize, Ordering::Relaxed);
        }
        q
    }
}

pub fn live() -> isize {
    LIVE.load(Ordering::Relaxed)
}
