//! From-scratch reference evaluation (the documented formulas) in double-double.
use crate::dd::*;
use crate::ind::B;

pub fn last_n<T>(h: &[T], n: usize) -> &[T] {
    let k = h.len().min(n);
    &h[h.len() - k..]
}

pub fn sum(w: &[f64]) -> DD {
    w.iter().fold(DD::ZERO, |a, &x| a.add(dd(x)))
}
pub fn mean(w: &[f64]) -> DD {
    sum(w).div(DD::fromu(w.len()))
}
/// weights 1..k, newest heaviest
pub fn wma(w: &[f64]) -> DD {
    let k = w.len();
    let mut s = DD::ZERO;
    for (i, &x) in w.iter().enumerate() {
        s = s.add(dd(x).mul(DD::fromu(i + 1)));
    }
    s.div(DD::fromu(k * (k + 1) / 2))
}
/// population variance
pub fn var(w: &[f64]) -> DD {
    let m = mean(w);
    let mut s = DD::ZERO;
    for &x in w {
        let d = dd(x).sub(m);
        s = s.add(d.mul(d));
    }
    s.div(DD::fromu(w.len()))
}
pub fn mad(w: &[f64]) -> DD {
    let m = mean(w);
    let mut s = DD::ZERO;
    for &x in w {
        s = s.add(dd(x).sub(m).abs());
    }
    s.div(DD::fromu(w.len()))
}
pub fn fmin(w: &[f64]) -> f64 {
    w.iter().fold(f64::INFINITY, |a, &x| if x < a { x } else { a })
}
pub fn fmax(w: &[f64]) -> f64 {
    w.iter().fold(f64::NEG_INFINITY, |a, &x| if x > a { x } else { a })
}
pub fn maxabs(w: &[f64]) -> f64 {
    w.iter().fold(0.0, |a: f64, &x| a.max(x.abs()))
}

/// α = 2/(n+1)
pub fn alpha(n: usize) -> DD {
    dd(2.0).div(DD::fromu(n).add(dd(1.0)))
}

/// whole-history EMA: first input unchanged, then α·x + (1−α)·prev
pub struct EmaRef {
    pub k: DD,
    pub cur: Option<DD>,
}
impl EmaRef {
    pub fn new(n: usize) -> EmaRef {
        EmaRef { k: alpha(n), cur: None }
    }
    pub fn next(&mut self, x: DD) -> DD {
        let v = match self.cur {
            None => x,
            Some(c) => self.k.mul(x).add(dd(1.0).sub(self.k).mul(c)),
        };
        self.cur = Some(v);
        v
    }
}

pub struct TrRef {
    pub prev: Option<f64>,
}
impl TrRef {
    pub fn new() -> TrRef {
        TrRef { prev: None }
    }
    pub fn next(&mut self, x: f64) -> DD {
        let v = match self.prev {
            None => DD::ZERO,
            Some(p) => dd(x).sub(dd(p)).abs(),
        };
        self.prev = Some(x);
        v
    }
    pub fn next_bar(&mut self, b: &B) -> DD {
        let hl = dd(b.h).sub(dd(b.l));
        let v = match self.prev {
            None => hl,
            Some(p) => hl.max(dd(b.h).sub(dd(p)).abs()).max(dd(b.l).sub(dd(p)).abs()),
        };
        self.prev = Some(b.c);
        v
    }
}

pub fn typical(b: &B) -> DD {
    dd(b.h).add(dd(b.l)).add(dd(b.c)).div(dd(3.0))
}
