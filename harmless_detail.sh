#!/bin/bash
# harmless_detail.sh <patch> : translator rejects and first Lean errors for one harmless patch (private copies)
V=/verif; p=$(readlink -f $1)
W=$(mktemp -d /tmp/hdw.XXXXXX); L=$(mktemp -d /tmp/hdl.XXXXXX)
trap 'git -C /repo worktree remove --force "$W/r" 2>/dev/null; rm -rf "$W" "$L"' EXIT
cp -r $V/lean/. "$L"/
git -C /repo worktree add -q --detach "$W/r" HEAD; git -C "$W/r" apply "$p" || exit 1
$V/build/rs2lean/release/rs2lean "$W/r/src" "$L/TaRs/Gen" 2>&1 >/dev/null | grep REJECT
cd "$L" && lake build TaRs 2>&1 | grep -A${2:-6} "^error: .*lean:" | cut -c1-220 | head -${3:-40}
