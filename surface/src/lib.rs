//! C19 — static trait-bound assertions against /repo: this crate type-checks iff every
//! indicator has the documented trait surface.  rustc is the judge; nothing here runs.
#![allow(dead_code)]
use std::fmt::{Debug, Display};
use ta::errors::TaError;
use ta::indicators::*;
use ta::{Close, DataItem, High, Low, Next, Open, Period, Reset, Volume};

fn indicator<T: Clone + Debug + Display + Default + Reset + Send + Sync + Unpin + 'static>() {}
fn next_item<T: for<'a> Next<&'a DataItem>>() {}
fn next_f64<T: Next<f64>>() {}
fn next_ref<'a, T: Next<&'a U>, U: 'a>() {}
fn has_period<T: Period>() {}
fn output<T: Clone + Debug + PartialEq>() {}
#[cfg(feature = "serde")]
fn serde_ok<T: serde::Serialize + for<'de> serde::Deserialize<'de>>() {}

// user types providing ONLY the price traits an indicator is documented to need
struct C_;
impl Close for C_ { fn close(&self) -> f64 { 0.0 } }
struct L_;
impl Low for L_ { fn low(&self) -> f64 { 0.0 } }
struct H_;
impl High for H_ { fn high(&self) -> f64 { 0.0 } }
struct Hlc;
impl High for Hlc { fn high(&self) -> f64 { 0.0 } }
impl Low for Hlc { fn low(&self) -> f64 { 0.0 } }
impl Close for Hlc { fn close(&self) -> f64 { 0.0 } }
struct Hlcv;
impl High for Hlcv { fn high(&self) -> f64 { 0.0 } }
impl Low for Hlcv { fn low(&self) -> f64 { 0.0 } }
impl Close for Hlcv { fn close(&self) -> f64 { 0.0 } }
impl Volume for Hlcv { fn volume(&self) -> f64 { 0.0 } }
struct Cv;
impl Close for Cv { fn close(&self) -> f64 { 0.0 } }
impl Volume for Cv { fn volume(&self) -> f64 { 0.0 } }

macro_rules! all_indicators {
    ($m:ident) => {
        $m!(SimpleMovingAverage); $m!(ExponentialMovingAverage); $m!(WeightedMovingAverage); $m!(StandardDeviation);
        $m!(MeanAbsoluteDeviation); $m!(RelativeStrengthIndex); $m!(Minimum); $m!(Maximum); $m!(FastStochastic);
        $m!(SlowStochastic); $m!(TrueRange); $m!(AverageTrueRange); $m!(MovingAverageConvergenceDivergence);
        $m!(PercentagePriceOscillator); $m!(CommodityChannelIndex); $m!(EfficiencyRatio); $m!(BollingerBands);
        $m!(ChandelierExit); $m!(KeltnerChannel); $m!(RateOfChange); $m!(MoneyFlowIndex); $m!(OnBalanceVolume);
    };
}

pub fn assertions() {
    macro_rules! base { ($t:ty) => { indicator::<$t>(); next_item::<$t>(); }; }
    all_indicators!(base);
    #[cfg(feature = "serde")]
    {
        macro_rules! ser { ($t:ty) => { serde_ok::<$t>(); }; }
        all_indicators!(ser);
        serde_ok::<DataItem>();
    }
    // all but CCI, ChandelierExit, MFI and OBV implement Next<f64>
    next_f64::<SimpleMovingAverage>(); next_f64::<ExponentialMovingAverage>(); next_f64::<WeightedMovingAverage>();
    next_f64::<StandardDeviation>(); next_f64::<MeanAbsoluteDeviation>(); next_f64::<RelativeStrengthIndex>();
    next_f64::<Minimum>(); next_f64::<Maximum>(); next_f64::<FastStochastic>(); next_f64::<SlowStochastic>();
    next_f64::<TrueRange>(); next_f64::<AverageTrueRange>(); next_f64::<MovingAverageConvergenceDivergence>();
    next_f64::<PercentagePriceOscillator>(); next_f64::<EfficiencyRatio>(); next_f64::<BollingerBands>();
    next_f64::<KeltnerChannel>(); next_f64::<RateOfChange>();
    // all single-period indicators implement Period
    has_period::<SimpleMovingAverage>(); has_period::<ExponentialMovingAverage>(); has_period::<WeightedMovingAverage>();
    has_period::<StandardDeviation>(); has_period::<MeanAbsoluteDeviation>(); has_period::<RelativeStrengthIndex>();
    has_period::<Minimum>(); has_period::<Maximum>(); has_period::<FastStochastic>(); has_period::<AverageTrueRange>();
    has_period::<CommodityChannelIndex>(); has_period::<EfficiencyRatio>(); has_period::<BollingerBands>();
    has_period::<ChandelierExit>(); has_period::<KeltnerChannel>(); has_period::<RateOfChange>(); has_period::<MoneyFlowIndex>();
    // Next<&T> for any T providing (only) the price traits it needs
    next_ref::<SimpleMovingAverage, C_>(); next_ref::<ExponentialMovingAverage, C_>(); next_ref::<WeightedMovingAverage, C_>();
    next_ref::<StandardDeviation, C_>(); next_ref::<MeanAbsoluteDeviation, C_>(); next_ref::<RelativeStrengthIndex, C_>();
    next_ref::<MovingAverageConvergenceDivergence, C_>(); next_ref::<PercentagePriceOscillator, C_>();
    next_ref::<EfficiencyRatio, C_>(); next_ref::<BollingerBands, C_>(); next_ref::<RateOfChange, C_>();
    next_ref::<Minimum, L_>(); next_ref::<Maximum, H_>();
    next_ref::<FastStochastic, Hlc>(); next_ref::<SlowStochastic, Hlc>(); next_ref::<TrueRange, Hlc>();
    next_ref::<AverageTrueRange, Hlc>(); next_ref::<KeltnerChannel, Hlc>(); next_ref::<ChandelierExit, Hlc>();
    next_ref::<CommodityChannelIndex, Hlc>(); next_ref::<MoneyFlowIndex, Hlcv>(); next_ref::<OnBalanceVolume, Cv>();
    // output structs
    output::<MovingAverageConvergenceDivergenceOutput>(); output::<PercentagePriceOscillatorOutput>();
    output::<BollingerBandsOutput>(); output::<KeltnerChannelOutput>(); output::<ChandelierExitOutput>();
    let _: (f64, f64, f64) = MovingAverageConvergenceDivergenceOutput { macd: 0.0, signal: 0.0, histogram: 0.0 }.into();
    let _: (f64, f64, f64) = PercentagePriceOscillatorOutput { ppo: 0.0, signal: 0.0, histogram: 0.0 }.into();
    let _: (f64, f64) = ChandelierExitOutput { long: 0.0, short: 0.0 }.into();
    // TaError is a std Error that is Clone + Eq + Send + Sync
    fn err<T: std::error::Error + Clone + Eq + Send + Sync + 'static>() {}
    err::<TaError>();
    // DataItem provides all five price traits
    fn item<T: Open + High + Low + Close + Volume + Clone + Debug + PartialEq>() {}
    item::<DataItem>();
}
