//! C19 — static trait-bound assertions against /repo: this crate type-checks iff every
//! indicator has the documented trait surface.  rustc is the judge; nothing here runs.
#![allow(dead_code)]
use std::fmt::{Debug, Display};
use ta::errors::TaError;
use ta::indicators::*;
use ta::{Close, DataItem, High, Low, Next, Open, Period, Reset, Volume};

fn indicator<T: Clone + Debug + Display + Default + Reset + Send + Sync + Unpin + 'static>() {}
fn next_item<T: for<'a> Next<&'a DataItem>>() {}
fn next_f64<T: Next<f64>>() {}
fn next_ref<'a, T: Next<&'a U>, U: 'a>() {}
fn has_period<T: Period>() {}
fn output<T: Clone + Debug + PartialEq>() {}
#[cfg(feature = "serde")]
fn serde_ok<T: serde::Serialize + for<'de> serde::Deserialize<'de>>() {}

// user types providing ONLY the price traits an indicator is documented to need
struct C_;
impl Close for C_ { fn close(&self) -> f64 { 0.0 } }
struct L_;
impl Low for L_ { fn low(&self) -> f64 { 0.0 } }
struct H_;
impl High for H_ { fn high(&self) -> f64 { 0.0 } }
struct Hlc;
impl High for Hlc { fn high(&self) -> f64 { 0.0 } }
impl Low for Hlc { fn low(&self) -> f64 { 0.0 } }
impl Close for Hlc { fn close(&self) -> f64 { 0.0 } }
struct Hlcv;
impl High for Hlcv { fn high(&self) -> f64 { 0.0 } }
impl Low for Hlcv { fn low(&self) -> f64 { 0.0 } }
impl Close for Hlcv { fn close(&self) -> f64 { 0.0 } }
impl Volume for Hlcv { fn volume(&self) -> f64 { 0.0 } }
struct Cv;
impl Close for Cv { fn close(&self) -> f64 { 0.0 } }
impl Volume for Cv { fn volume(&self) -> f64 { 0.0 } }

// A bar type that BORROWS its data (a view into a row of a price table): it is not 'static.  The contract is
// "Next<&T> for ANY T providing the price traits", which includes such views; an impl that quietly demands
// `T: 'static` (e.g. because it erases T behind a `dyn` object) still accepts every owning type above.
// One view per set of price traits, so that each indicator is given exactly the traits it needs and nothing more.
#[derive(Clone, Copy)]
struct RowC<'a> { row: &'a [f64; 5] }
impl<'a> Close for RowC<'a> { fn close(&self) -> f64 { self.row[3] } }
#[derive(Clone, Copy)]
struct RowL<'a> { row: &'a [f64; 5] }
impl<'a> Low for RowL<'a> { fn low(&self) -> f64 { self.row[2] } }
#[derive(Clone, Copy)]
struct RowH<'a> { row: &'a [f64; 5] }
impl<'a> High for RowH<'a> { fn high(&self) -> f64 { self.row[1] } }
#[derive(Clone, Copy)]
struct RowHlc<'a> { row: &'a [f64; 5] }
impl<'a> High for RowHlc<'a> { fn high(&self) -> f64 { self.row[1] } }
impl<'a> Low for RowHlc<'a> { fn low(&self) -> f64 { self.row[2] } }
impl<'a> Close for RowHlc<'a> { fn close(&self) -> f64 { self.row[3] } }
#[derive(Clone, Copy)]
struct RowHlcv<'a> { row: &'a [f64; 5] }
impl<'a> High for RowHlcv<'a> { fn high(&self) -> f64 { self.row[1] } }
impl<'a> Low for RowHlcv<'a> { fn low(&self) -> f64 { self.row[2] } }
impl<'a> Close for RowHlcv<'a> { fn close(&self) -> f64 { self.row[3] } }
impl<'a> Volume for RowHlcv<'a> { fn volume(&self) -> f64 { self.row[4] } }
#[derive(Clone, Copy)]
struct RowCv<'a> { row: &'a [f64; 5] }
impl<'a> Close for RowCv<'a> { fn close(&self) -> f64 { self.row[3] } }
impl<'a> Volume for RowCv<'a> { fn volume(&self) -> f64 { self.row[4] } }
/// all five price traits, borrowed (what a generic client that knows nothing about the indicator passes)
#[derive(Clone, Copy)]
struct RowView<'a> { row: &'a [f64; 5] }
impl<'a> Open for RowView<'a> { fn open(&self) -> f64 { self.row[0] } }
impl<'a> High for RowView<'a> { fn high(&self) -> f64 { self.row[1] } }
impl<'a> Low for RowView<'a> { fn low(&self) -> f64 { self.row[2] } }
impl<'a> Close for RowView<'a> { fn close(&self) -> f64 { self.row[3] } }
impl<'a> Volume for RowView<'a> { fn volume(&self) -> f64 { self.row[4] } }

/// the bound, for a view type whose lifetime parameter is the caller's (non-'static) `'a`, and a real call through it
fn next_borrowed<'r, 'a: 'r, T: Next<&'r U> + Default, U: 'a>(u: &'r U) -> <T as Next<&'r U>>::Output {
    T::default().next(u)
}

/// the HIGHER-RANKED form: `T: for<'r> Next<&'r U>` for a bar type `U` that is not `'static` (a generic driver that keeps
/// an indicator and is handed bars of arbitrary lifetimes needs exactly this bound)
fn next_higher_ranked<T, U>(u: &U)
where
    T: for<'r> Next<&'r U> + Default,
{
    let mut t = T::default();
    let _ = t.next(u);
    let _ = t.next(u);
}

macro_rules! all_indicators {
    ($m:ident) => {
        $m!(SimpleMovingAverage); $m!(ExponentialMovingAverage); $m!(WeightedMovingAverage); $m!(StandardDeviation);
        $m!(MeanAbsoluteDeviation); $m!(RelativeStrengthIndex); $m!(Minimum); $m!(Maximum); $m!(FastStochastic);
        $m!(SlowStochastic); $m!(TrueRange); $m!(AverageTrueRange); $m!(MovingAverageConvergenceDivergence);
        $m!(PercentagePriceOscillator); $m!(CommodityChannelIndex); $m!(EfficiencyRatio); $m!(BollingerBands);
        $m!(ChandelierExit); $m!(KeltnerChannel); $m!(RateOfChange); $m!(MoneyFlowIndex); $m!(OnBalanceVolume);
    };
}

/// Every indicator with a bar path, fed views that borrow from `row` for a lifetime `'a` chosen by the CALLER (so the
/// body must type-check for every `'a`, in particular for non-'static ones).
pub fn borrowed_bars<'a>(row: &'a [f64; 5]) {
    let (c, l, h) = (RowC::<'a> { row }, RowL::<'a> { row }, RowH::<'a> { row });
    let (hlc, hlcv, cv, all) = (RowHlc::<'a> { row }, RowHlcv::<'a> { row }, RowCv::<'a> { row }, RowView::<'a> { row });
    // exactly the needed price traits
    macro_rules! close_only { ($($t:ty),*) => { $( let _ = next_borrowed::<$t, RowC<'a>>(&c); )* }; }
    close_only!(SimpleMovingAverage, ExponentialMovingAverage, WeightedMovingAverage, StandardDeviation, MeanAbsoluteDeviation,
        RelativeStrengthIndex, MovingAverageConvergenceDivergence, PercentagePriceOscillator, EfficiencyRatio, BollingerBands, RateOfChange);
    let _ = next_borrowed::<Minimum, RowL<'a>>(&l);
    let _ = next_borrowed::<Maximum, RowH<'a>>(&h);
    macro_rules! hlc_only { ($($t:ty),*) => { $( let _ = next_borrowed::<$t, RowHlc<'a>>(&hlc); )* }; }
    hlc_only!(FastStochastic, SlowStochastic, TrueRange, AverageTrueRange, KeltnerChannel, ChandelierExit, CommodityChannelIndex);
    let _ = next_borrowed::<MoneyFlowIndex, RowHlcv<'a>>(&hlcv);
    let _ = next_borrowed::<OnBalanceVolume, RowCv<'a>>(&cv);
    // and the full view, for all 22
    macro_rules! full { ($t:ty) => { let _ = next_borrowed::<$t, RowView<'a>>(&all); }; }
    all_indicators!(full);
    // the same through a higher-ranked bound, with the non-'static view type
    macro_rules! full_hr { ($t:ty) => { next_higher_ranked::<$t, RowView<'a>>(&all); }; }
    all_indicators!(full_hr);
    // a view created and dropped inside a loop over locally owned rows (the shortest possible lifetime)
    let table: Vec<[f64; 5]> = vec![*row; 3];
    let (mut atr, mut tr, mut kc, mut ce) = (AverageTrueRange::default(), TrueRange::default(), KeltnerChannel::default(), ChandelierExit::default());
    let (mut cci, mut mfi, mut obv, mut fast, mut slow) = (CommodityChannelIndex::default(), MoneyFlowIndex::default(), OnBalanceVolume::default(), FastStochastic::default(), SlowStochastic::default());
    for r in table.iter() {
        let v = RowView { row: r };
        let _ = atr.next(&v);
        let _ = tr.next(&v);
        let _ = kc.next(&v);
        let _ = ce.next(&v);
        let _ = cci.next(&v);
        let _ = mfi.next(&v);
        let _ = obv.next(&v);
        let _ = fast.next(&v);
        let _ = slow.next(&v);
    }
}

pub fn assertions() {
    macro_rules! base { ($t:ty) => { indicator::<$t>(); next_item::<$t>(); }; }
    all_indicators!(base);
    #[cfg(feature = "serde")]
    {
        macro_rules! ser { ($t:ty) => { serde_ok::<$t>(); }; }
        all_indicators!(ser);
        serde_ok::<DataItem>();
    }
    // all but CCI, ChandelierExit, MFI and OBV implement Next<f64>
    next_f64::<SimpleMovingAverage>(); next_f64::<ExponentialMovingAverage>(); next_f64::<WeightedMovingAverage>();
    next_f64::<StandardDeviation>(); next_f64::<MeanAbsoluteDeviation>(); next_f64::<RelativeStrengthIndex>();
    next_f64::<Minimum>(); next_f64::<Maximum>(); next_f64::<FastStochastic>(); next_f64::<SlowStochastic>();
    next_f64::<TrueRange>(); next_f64::<AverageTrueRange>(); next_f64::<MovingAverageConvergenceDivergence>();
    next_f64::<PercentagePriceOscillator>(); next_f64::<EfficiencyRatio>(); next_f64::<BollingerBands>();
    next_f64::<KeltnerChannel>(); next_f64::<RateOfChange>();
    // all single-period indicators implement Period
    has_period::<SimpleMovingAverage>(); has_period::<ExponentialMovingAverage>(); has_period::<WeightedMovingAverage>();
    has_period::<StandardDeviation>(); has_period::<MeanAbsoluteDeviation>(); has_period::<RelativeStrengthIndex>();
    has_period::<Minimum>(); has_period::<Maximum>(); has_period::<FastStochastic>(); has_period::<AverageTrueRange>();
    has_period::<CommodityChannelIndex>(); has_period::<EfficiencyRatio>(); has_period::<BollingerBands>();
    has_period::<ChandelierExit>(); has_period::<KeltnerChannel>(); has_period::<RateOfChange>(); has_period::<MoneyFlowIndex>();
    // Next<&T> for any T providing (only) the price traits it needs
    next_ref::<SimpleMovingAverage, C_>(); next_ref::<ExponentialMovingAverage, C_>(); next_ref::<WeightedMovingAverage, C_>();
    next_ref::<StandardDeviation, C_>(); next_ref::<MeanAbsoluteDeviation, C_>(); next_ref::<RelativeStrengthIndex, C_>();
    next_ref::<MovingAverageConvergenceDivergence, C_>(); next_ref::<PercentagePriceOscillator, C_>();
    next_ref::<EfficiencyRatio, C_>(); next_ref::<BollingerBands, C_>(); next_ref::<RateOfChange, C_>();
    next_ref::<Minimum, L_>(); next_ref::<Maximum, H_>();
    next_ref::<FastStochastic, Hlc>(); next_ref::<SlowStochastic, Hlc>(); next_ref::<TrueRange, Hlc>();
    next_ref::<AverageTrueRange, Hlc>(); next_ref::<KeltnerChannel, Hlc>(); next_ref::<ChandelierExit, Hlc>();
    next_ref::<CommodityChannelIndex, Hlc>(); next_ref::<MoneyFlowIndex, Hlcv>(); next_ref::<OnBalanceVolume, Cv>();
    // output structs
    output::<MovingAverageConvergenceDivergenceOutput>(); output::<PercentagePriceOscillatorOutput>();
    output::<BollingerBandsOutput>(); output::<KeltnerChannelOutput>(); output::<ChandelierExitOutput>();
    let _: (f64, f64, f64) = MovingAverageConvergenceDivergenceOutput { macd: 0.0, signal: 0.0, histogram: 0.0 }.into();
    let _: (f64, f64, f64) = PercentagePriceOscillatorOutput { ppo: 0.0, signal: 0.0, histogram: 0.0 }.into();
    let _: (f64, f64) = ChandelierExitOutput { long: 0.0, short: 0.0 }.into();
    // TaError is a std Error (hence Debug + Display) that is Clone + Eq (hence PartialEq) + Send + Sync; it is stored in
    // `Box<dyn Error + Send + Sync + 'static>` by clients, so 'static is part of the contract.  Each bound is asserted on
    // its own as well, so that the compiler names the one that was lost.
    fn err<T: std::error::Error + Clone + PartialEq + Eq + Debug + Display + Send + Sync + 'static>() {}
    err::<TaError>();
    fn is_error<T: std::error::Error>() {}
    fn is_clone<T: Clone>() {}
    fn is_partial_eq<T: PartialEq>() {}
    fn is_eq<T: Eq>() {}
    fn is_debug<T: Debug>() {}
    fn is_display<T: Display>() {}
    fn is_send<T: Send>() {}
    fn is_sync<T: Sync>() {}
    fn is_static<T: 'static>() {}
    is_error::<TaError>(); is_clone::<TaError>(); is_partial_eq::<TaError>(); is_eq::<TaError>(); is_debug::<TaError>();
    is_display::<TaError>(); is_send::<TaError>(); is_sync::<TaError>(); is_static::<TaError>();
    let _: Box<dyn std::error::Error + Send + Sync + 'static> = Box::new(TaError::InvalidParameter);
    // DataItem provides all five price traits, is Clone + Debug + PartialEq (a clone compares equal) and is what the
    // indicators' Next<&DataItem> consumes
    fn item<T: Open + High + Low + Close + Volume + Clone + Debug + PartialEq>() {}
    item::<DataItem>();
    is_clone::<DataItem>(); is_debug::<DataItem>(); is_partial_eq::<DataItem>();
    // output structs, bound by bound
    macro_rules! out_each { ($($t:ty),*) => { $( is_clone::<$t>(); is_debug::<$t>(); is_partial_eq::<$t>(); )* }; }
    out_each!(MovingAverageConvergenceDivergenceOutput, PercentagePriceOscillatorOutput, BollingerBandsOutput, KeltnerChannelOutput, ChandelierExitOutput);
}
