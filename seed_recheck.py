#!/usr/bin/env python3
"""seed_recheck.py <id>… : for each stored seeded change (seeded/<id>/patch.diff) run every registered quick check against
it (mutest.sh, scratch worktree, slot $MUT_SLOT) and record the verdicts in seeded/<id>/meta.json."""
import json, os, re, subprocess, sys
V = os.path.dirname(os.path.abspath(__file__))
for sid in sys.argv[1:]:
    d = f"{V}/seeded/{sid}"
    meta = json.load(open(f"{d}/meta.json"))
    m = subprocess.run([f"{V}/mutest.sh", f"{d}/patch.diff"], stdout=subprocess.PIPE, stderr=subprocess.STDOUT, text=True).stdout
    caught = re.search(r"CAUGHT-BY:(.*)", m).group(1).split() if "CAUGHT-BY:" in m else []
    silent = re.search(r"SILENT:(.*)", m).group(1).split() if "SILENT:" in m else []
    verdicts = {l.split(":")[0].replace("== ", ""): ("no-failing-input-found" if "no-failing-input-found" in l else "concrete") for l in m.splitlines() if l.startswith("== ")}
    details = [l for l in m.splitlines() if l.startswith("== ") or "failing input" in l or "broken:" in l]
    meta.update({"checks_run": "mutest.sh (quick tier, VERIF_SEED=1) over all registered checks", "caught_by": caught, "silent": silent,
                 "verdicts": verdicts, "details": details[:120]})
    json.dump(meta, open(f"{d}/meta.json", "w"), indent=1)
    own = meta["breaks_property"]
    print(f"{sid}: own={verdicts.get(own, 'MISSED')} concrete={[k for k, v in verdicts.items() if v == 'concrete']} proof-only={[k for k, v in verdicts.items() if v != 'concrete']}", flush=True)
