#!/bin/bash
# campaign.sh <nslots> : re-run every stored seeded change against every registered check, <nslots> changes at a time
V=$(dirname "$(readlink -f "$0")"); cd $V
n=${1:-3}
ids=$(ls seeded | grep -E '^C[0-9]+-[0-9]+$' | sort -V)
for k in $(seq 0 $((n-1))); do
  mine=$(echo "$ids" | awk -v n=$n -v k=$k 'NR % n == k')
  ( MUT_SLOT=$k MUT_PAR=${MUT_PAR:-5} ./seed_recheck.py $mine > build/tmp/campaign_$k.log 2>&1 ) &
done
wait
echo campaign-done
