#!/bin/bash
# usage: mutest.sh <patch.diff> [props…]   — applies a seeded change to /repo, runs the quick checks
# (default: all registered), restores /repo.  Uses a private copy of the Lean project so that the
# main one (and its build cache) is not disturbed.
set -u
patch=$(readlink -f "$1"); shift
props="$@"
[ -z "$props" ] && props=$(python3 -c "import json; print(' '.join(c['property_id'] for c in json.load(open('/verif/MANIFEST.json'))['checks']))")
cd /verif
if ! git -C /repo diff --quiet; then echo "/repo has local modifications; refusing"; exit 2; fi
export VERIF_LEAN_DIR=/verif/build/lean_mut
export VERIF_EVIDENCE_DIR=/verif/build/mut_evidence
export VERIF_REPLAY_DIR=/verif/build/mut_replays
mkdir -p $VERIF_LEAN_DIR
rsync -a --delete /verif/lean/ $VERIF_LEAN_DIR/
git -C /repo apply "$patch" || { echo "patch does not apply"; exit 2; }
caught=""; missed=""
mkdir -p /verif/build/mut_out; rm -f /verif/build/mut_out/*.out
# the first check rebuilds the shared artefacts under the lock; the rest run 8 at a time
first=$(echo $props | cut -d' ' -f1)
./check $first --tier quick > /verif/build/mut_out/$first.out 2>&1
echo $props | tr ' ' '\n' | grep -v "^$first$" | xargs -P 8 -I{} sh -c './check {} --tier quick > /verif/build/mut_out/{}.out 2>&1'
for p in $props; do
  out=$(cat /verif/build/mut_out/$p.out)
  if echo "$out" | grep -q "^VIOLATION"; then
     caught="$caught $p"; echo "== $p: CAUGHT  $(echo "$out" | grep -m1 '^VIOLATION')"; echo "$out" | grep -m2 "failing input\|broken:" | cut -c1-300
  else
     missed="$missed $p"
  fi
done
git -C /repo checkout -- .
echo "CAUGHT-BY:$caught"
echo "SILENT:$missed"
# restore generated model of the main project is untouched (private copy used); rebuild harness against clean repo
(cd /verif/harness && cargo build --offline >/dev/null 2>&1)
