#!/bin/bash
# usage: mutest.sh <patch.diff> [props…]   — applies a seeded change to a SCRATCH worktree of /repo (never to /repo
# itself), runs the quick checks against it (default: all registered) through VERIF_REPO, removes the worktree.
# Private copies of the Lean project, the harness and the surface crate are used (build/mut/<slot>/…), so several
# mutest.sh can run side by side (slot = $MUT_SLOT, default 0) and the main checks are not disturbed.
set -u
V=$(dirname "$(readlink -f "$0")")
patch=$(readlink -f "$1"); shift
props="$@"
[ -z "$props" ] && props=$(python3 -c "import json; print(' '.join(c['property_id'] for c in json.load(open('$V/MANIFEST.json'))['checks']))")
slot=${MUT_SLOT:-0}
cd $V
W=/tmp/verif_mut_$slot
git -C /repo worktree remove --force $W 2>/dev/null; rm -rf $W
git -C /repo worktree add -q --detach $W HEAD || exit 2
trap 'git -C /repo worktree remove --force $W 2>/dev/null; rm -rf $W' EXIT
git -C $W apply "$patch" || { echo "patch does not apply"; exit 2; }
export VERIF_REPO=$W
export VERIF_LEAN_DIR=$V/build/mut/$slot/lean
export VERIF_EVIDENCE_DIR=$V/build/mut/$slot/evidence
export VERIF_REPLAY_DIR=$V/build/mut/$slot/replays
O=$V/build/mut/$slot/out
mkdir -p $VERIF_LEAN_DIR $O; rm -f $O/*.out
rsync -a --delete $V/lean/ $VERIF_LEAN_DIR/
caught=""; missed=""
# the first check rebuilds the shared artefacts under the lock; the rest run ${MUT_PAR:-8} at a time
first=$(echo $props | cut -d' ' -f1)
./check $first --tier quick > $O/$first.out 2>&1
echo $props | tr ' ' '\n' | grep -v "^$first$" | xargs -P ${MUT_PAR:-8} -I{} sh -c "./check {} --tier quick > $O/{}.out 2>&1"
for p in $props; do
  out=$(cat $O/$p.out)
  if echo "$out" | grep -q "^VIOLATION"; then
     caught="$caught $p"; echo "== $p: CAUGHT  $(echo "$out" | grep -m1 '^VIOLATION')"; echo "$out" | grep -m2 "failing input\|broken:" | cut -c1-300
  else
     missed="$missed $p"
  fi
done
echo "CAUGHT-BY:$caught"
echo "SILENT:$missed"
