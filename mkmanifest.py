#!/usr/bin/env python3
"""Regenerates MANIFEST.json from checkcfg.py (claims a property iff all its theorem modules exist
and it is not listed in PENDING)."""
import json, os, sys
sys.path.insert(0, os.path.dirname(os.path.abspath(__file__)))
from checkcfg import PROPS
PENDING = set(sys.argv[1:])
old = json.load(open('MANIFEST.json'))
tech = {c['property_id']: c['technique'] for c in old['checks']}
tech.update({
 "C06":"Lean 4 theorem: generated bincode codec round-trips on every well-formed state + byte comparison with real bincode + checkpoint oracle",
 "C09":"Lean 4 theorems (exact inequalities, clamp for any scalar, histogram identity) + order oracle",
 "C14":"Lean 4 theorems (homogeneity of window statistics through C01) + paired-run metamorphic oracle",
 "C18":"Lean 4 theorem: encoded length is a closed form of the parameters + real bincode length + counting allocator",
})
claimed = [p for p in sorted(PROPS) if p not in PENDING and all(os.path.exists('lean/'+m.replace('.','/')+'.lean') for m in PROPS[p]['modules'])]
checks=[]
for p in claimed:
    cfg=PROPS[p]
    checks.append({
      "property_id": p,
      "quick_cmd": f"./check {p} --tier quick",
      "thorough_cmd": f"./check {p} --tier thorough",
      "evidence_file": f"/verif/evidence/{p}.json",
      "replay_cmd_template": f"./check {p} --replay {{path}}",
      "engine": "lean4+rs2lean+harness",
      "level_claimed": {"category": cfg.get("level","proof"), "text": cfg["explanation"], "design_ref": "DESIGN.md §7 "+p},
      "level_note": old['checks'][0]['level_note'],
      "technique": tech[p],
    })
old['checks']=checks
old['engines'][0]['serves_properties']=claimed
old['not_applicable']=[{"property_id": p, "reason": "theorem module still being written in this round; the oracle exists (harness/src/props) but the check is not registered until its Lean obligations build"} for p in sorted(PROPS) if p not in claimed]
json.dump(old, open('MANIFEST.json','w'), indent=1)
print("claimed", claimed)
