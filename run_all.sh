#!/bin/bash
# run every registered quick check sequentially; summary at the end
cd /verif; mkdir -p build/tmp
for p in $(python3 -c "import json; print(' '.join(c['property_id'] for c in json.load(open('MANIFEST.json'))['checks']))"); do
  /usr/bin/time -f "$p %es" ./check $p --tier ${1:-quick} > build/tmp/check_$p.log 2>&1; echo "$p rc=$? $(tail -1 build/tmp/check_$p.log)"; grep -E "VIOLATION|KNOWN-FINDING" build/tmp/check_$p.log
done
