#!/bin/bash
# seed_batch.sh "C01 1" "C01 2" … : run seed_mutant.py sequentially, logging to build/tmp/seed_<prop>_<n>.log
cd /verif
for item in "$@"; do set -- $item; ./seed_mutant.py $1 $2 > build/tmp/seed_$1_$2.log 2>&1; echo "$1-$2: $(grep -E '^caught by|NOT CONFIRMED' build/tmp/seed_$1_$2.log)"; done
echo batch-done
