#!/bin/bash
# usage: confirm_mutant.sh <worktree> <patch> <demo.rs> ; confirms: suite passes with the change, demo fails with it and passes without
wt=$1; patch=$(readlink -f $2); demo=$(readlink -f $3)
cd $wt || exit 2
git checkout -q -- . ; rm -f tests/demo_confirm.rs
git apply --check "$patch" || { echo "PATCH-DOES-NOT-APPLY"; exit 1; }
git apply "$patch"
suite=$(cargo test --offline --lib 2>&1 | grep -E "^test result" | head -1)
suite_serde=$(cargo build --offline --features serde 2>&1 | tail -1)
cp "$demo" tests/demo_confirm.rs
feat=""; grep -q 'feature = "serde"' "$demo" && feat="--features serde"
with=$(cargo test --offline $feat --test demo_confirm 2>&1 | grep -E "^test result|error(\[|:)" | head -2 | tr '\n' ' ')
git checkout -q -- src
without=$(cargo test --offline $feat --test demo_confirm 2>&1 | grep -E "^test result|error(\[|:)" | head -2 | tr '\n' ' ')
rm -f tests/demo_confirm.rs
echo "SUITE(with change): $suite"
echo "SERDE-BUILD: $suite_serde"
echo "DEMO with change: $with"
echo "DEMO without change: $without"
