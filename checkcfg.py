"""Per-property configuration of ./check (which Lean modules carry the theorems, texts for
the evidence file).  The oracle programs live in harness/src/props/<id>.rs."""

TB_COMMON = [
    "Lean 4.33 kernel (lake build; leanchecker in the thorough tier)",
    "rs2lean translator (Rust+syn): /repo/src -> lean/TaRs/Gen/*.lean, re-run on every check; validated (not proved) by bit-for-bit / byte-for-byte replay of the recorded implementation runs on the generated model at Float (tars_drv)",
    "Prelude/Rs.lean: Rust panic semantics (bounds checks, usize overflow checks, unwrap, vec! capacity overflow) as Option/Res",
    "Lean Float ops == Rust f64 ops on this platform (empirical, re-checked every run)",
    "harness oracles (Rust, double-double references) for the sampled part",
]

ASSUME_COMMON = [
    "theorems are about the generated model; the tie to the code is the translator (regenerated each run) plus the differential replay, both in the trusted base",
    "derive(Clone/Debug/Serialize/Deserialize) expansions, bincode, std::fmt and the allocator are modelled or observed, not verified",
]

PROPS = {}


def prop(pid, modules, level="proof", **kw):
    d = {"modules": modules, "level": level, "trusted_base": list(TB_COMMON), "assumptions": list(ASSUME_COMMON)}
    d.update(kw)
    if any(m.startswith("TaRs.Round.") for m in modules):
        d["trusted_base"].append("Round/Model.lean: the standard model of floating-point arithmetic (every + - * / and decimal literal is the exact result rounded with |fl x - x| <= u|x|, u = 2^-53) is ASSUMED to describe f64 in the run: true for IEEE-754 round-to-nearest while no result overflows or underflows; usize->f64 exact (periods < 2^53). Not checked.")
        d["assumptions"].append("layer R theorems (Round/*) bound the rounding error of the generated code under that model only; the overflow/underflow range and the indicators without a Round module are covered by the sampled oracle")
    PROPS[pid] = d



import os, subprocess, json, time

def _surface(seed, tier):
    """C19: the static-assertion crate is type-checked against /repo with and without serde."""
    root = os.path.dirname(os.path.abspath(__file__))
    env = dict(os.environ, CARGO_NET_OFFLINE="true")
    fails, info = [], {"rustc_checks": []}
    for feats in ([], ["--features", "serde"]):
        p = subprocess.run(["cargo", "check", "--offline"] + feats, cwd=os.environ.get("VERIF_SURFACE_DIR") or os.path.join(root, "surface"), env=env,
                           stdout=subprocess.PIPE, stderr=subprocess.STDOUT, text=True)
        ok = p.returncode == 0
        info["rustc_checks"].append({"features": feats[-1] if feats else "default", "ok": ok})
        if not ok:
            errs = [l for l in p.stdout.splitlines() if l.startswith("error")]
            fails.append({"key": "surface:" + (feats[-1] if feats else "default"),
                          "msg": "static trait-bound assertions do not type-check: " + " | ".join(errs[:4])[:600],
                          "case": "surface|typecheck|" + (feats[-1] if feats else "default") + "||||",
                          "pretty": p.stdout[-1500:]})
    return fails, info

prop("C01", ["TaRs.Props.C01", "TaRs.Round.TauSMA", "TaRs.Round.TauSD", "TaRs.Round.TauMAD", "TaRs.Round.TauWMA"],
     explanation="L2 theorems (X K, any linearly ordered field): the generated next of SMA/WMA/SD/MAD/Min/Max/BB computes the statistic of exactly the last min(t,n) inputs for every period, stream and prefix (Min/Max: exactly, order only). The tau(t) agreement of the f64 run with that exact value is a theorem under the standard model of floating-point arithmetic for SMA, SD (variance), BollingerBands.average and MAD (Round/*, Tau*: below tau(t) for every t <= 2·10^6 and every n), and for WMA a theorem with a bound that exceeds tau(t) for t >= 16(n+1)^2 (known finding); Bollinger half-widths and the overflow/underflow range are sampled against double-double references.")
prop("C02", ["TaRs.Props.C02", "TaRs.Round.EMA", "TaRs.Round.TauEMA", "TaRs.Round.EMAPert", "TaRs.Round.MACD", "TaRs.Round.ATR", "TaRs.Round.ATRBar", "TaRs.Round.TauC02"],
     explanation="L0 whole-stream theorems (any Scalar, hence f64 incl. NaN): EMA seeding/recursion, TrueRange branches, ATR/MACD/KC/CE wiring are the documented formulas in the documented operation order. Layer R (Round/EMA, TauEMA): under the standard model of floating-point arithmetic (|fl x - x| <= u|x|, no overflow/underflow) the generated EMA is within 6(n+1)u·M of the exact recursion for EVERY stream length, which is <= 1e-12·M <= tau(t)·M for n <= 1024 at u = 2^-53. Same layer for the scalar path of the composites (Round/MACD, ATR incl. TrueRange and KeltnerChannel, via the EMA perturbation theorem Round/EMAPert): MACD line/signal/histogram within (6Nf+6Ns+3)/(14Ng+..)/(14Ng+12Nf+12Ns+11)·u·M, ATR within (12N+3)·u·M, Keltner bands within (6N+2+(12N+8)|m|)·u·M; TauC02: below 1e-12·M for moderate periods (e.g. ATR n<=749, MACD(12,26,9)), for periods up to 1024 below tau(t)·M only from t >= 52..223 on (stated, not hidden). BAR path of TrueRange and ATR (Round/ATRBar): for every stream of bars with |high|,|low|,|close| <= M (valid or not) the generated TrueRange is within 2u·M of max(high−low, |high−prev close|, |low−prev close|) and the generated ATR within (12N+3)·u·M of the exact EMA of it, for every stream length. KeltnerChannel fed bars (ATRBar.kc_bar_rounding): average within 6N·u·M of the exact EMA of the computed typical prices, both bands within (6N+2+(12N+8)|m|)·u·M of that EMA ± the exact bar ATR times m, every stream length. ChandelierExit and the sub/over-flow range are sampled.")
prop("C03", ["TaRs.Props.C03", "TaRs.Props.C03a", "TaRs.Lemmas.Exact.FastStochastic", "TaRs.Lemmas.Exact.RateOfChange", "TaRs.Lemmas.Exact.EfficiencyRatio", "TaRs.Lemmas.Exact.CommodityChannelIndex", "TaRs.Lemmas.Exact.MoneyFlowIndex", "TaRs.Round.MFI", "TaRs.Round.TauMFI", "TaRs.Round.CCI", "TaRs.Round.TauCCI", "TaRs.Round.RSI", "TaRs.Round.TauRSI", "TaRs.Round.PPO", "TaRs.Round.TauPPO", "TaRs.Round.OBV"],
     explanation="L0 per-step and whole-stream formulas (RSI, PPO, OBV, SlowStochastic, CCI wiring, FastStochastic wiring) + L2 exact lookback/window theorems (Lemmas/Exact: FastStochastic, ROC, ER, CCI, MFI). Layer R for MoneyFlowIndex (Round/MFI.mfi_reading_rounding): under the standard model of floating-point arithmetic, for every period and every bar stream with non-negative computed raw flows <= M, whenever the window's total flow D is at least 4E (E = 3·t·min(t,n)·u·M, the proved bound on the drift of both running totals) the ratio branch is taken and the returned value is within 100·(2E/D + 12u) of 100·S_P/(S_P+S_N) over exactly the last min(t,n) signed computed flows — the property's tau·c shape with c = M/D. Layer R for CommodityChannelIndex (Round/CCI.cci_rounding + quot_err): the generated CCI returns 0 or the rounded quotient of a numerator within (3k+…)·u·M of tp − mean and a denominator within (5k+…)·u·M·0.015 of 0.015·MAD over exactly the last min(k,n) computed typical prices, so its error is that drift divided by the exact denominator (the condition number). Layer R for RelativeStrengthIndex (Round/RSI.rsi_rounding, from the L0 identity rsi_stream and the EMA theorem): for every period with (n+1)u <= 1/64 and every stream bounded by M, of ANY length, the k-th output is rsiVal(U_k, D_k) with both smoothed averages within E = 6(n+1)·u·(1+u)(2M+0.1) of the exact EMAs of the computed gains / losses, which are non-negative, and whenever their sum is at least 4E the ratio branch is taken and the output is within 100·(2E/(U+D) + 12u) of 100·U/(U+D) (TauRSI: E <= 2e-11 for RSI(14) on prices to 1000). Layer R for the PercentagePriceOscillator line (Round/PPO.ppo_line_rounding, from ppo_stream, the EMA theorem and quot_err): for prices in [m, M], m > 0, 12(ns+1)·u·M <= m, every value of the ppo line, for every stream length, is within 100·((1+5u)·(2·EN/m + 4·M·ES/m²) + 10u·M/m) of the exact 100·(EMA_f − EMA_s)/EMA_s, EN = (6(nf+1)+6(ns+1)+2+…)·u·M, ES = 6(ns+1)·u·M — rounding drift times the condition number M/m (TauPPO: below 5e-11 percentage points for PPO(12,26) on prices within a factor 2); its signal and histogram are not covered. Layer R for OnBalanceVolume (Round/OBV.obv_rounding, from obv_stream): every output over t bars with |volume| <= W, t·u <= 1/8, is within t²·u·W of the exact running total (a pure accumulator: quadratic in t because the total itself grows like t·W). For the other oscillators (ROC, ER, the stochastics) the tau(t)·c agreement is sampled with double-double references and condition-number gating.")
prop("C04", ["TaRs.Props.C04"],
     explanation="L0 theorem per indicator: on every well-formed (hence every reachable) state reset yields exactly the state new builds; parameters unchanged; idempotent. State equality needs no arithmetic, so NaN/inf histories are covered.")
prop("C05", ["TaRs.Props.C05", "TaRs.Props.C19"],
     explanation="generic theorems about pure step functions: determinism, clone equivalence, independence under every interleaving of n instances (product of machines); their content for the code is the purity gate + plain-data table (C19 theorems, regenerated every run). Threads are exercised on the implementation only.")
prop("C06", ["TaRs.Props.C06"],
     explanation="L0: dec (enc s ++ r) = (s, r) for the generated bincode codec of every indicator on every well-formed state; serde_derive/bincode are modelled and tied by byte comparison of every logged state.")
prop("C07", ["TaRs.Props.C07", "TaRs.Props.C07Stream", "TaRs.Lemmas.Exact.FastStochastic", "TaRs.Lemmas.Exact.EfficiencyRatio", "TaRs.Lemmas.Exact.MoneyFlowIndex"],
     explanation="L2 whole-stream theorems at X K: every output of RSI, FastStochastic (scalars and valid bars), SlowStochastic, MFI lies in [0,100] and of EfficiencyRatio in [0,1], for every period and every finite stream (Props/C07Stream); the 1e-9 rounding slack and MFI's 100·tau·c slack are float-only and sampled.")
prop("C08", ["TaRs.Props.C08", "TaRs.Props.C08Exact", "TaRs.Props.C07Stream", "TaRs.Lemmas.Exact.FastStochastic", "TaRs.Lemmas.Exact.RateOfChange", "TaRs.Lemmas.Exact.EfficiencyRatio", "TaRs.Lemmas.Exact.CommodityChannelIndex", "TaRs.Lemmas.Exact.MoneyFlowIndex"],
     explanation="L1 guard theorems for any Scalar (output is the neutral literal or a quotient whose denominator tested non-zero on that path) for FastStochastic, CCI, ER, MFI, RSI; exact neutral values at X K from Lemmas/Exact; residue/underflow are float-only and searched on the implementation (two known findings).")
prop("C09", ["TaRs.Props.C09"],
     explanation="L2 inequalities at X K (SD, MAD >= 0, bands ordered, hulls, Min <= Max), L1 clamp theorem (m2 never negative for any Scalar with not (0 < 0)), L0 histogram identity; tau slack sampled.")
prop("C10", ["TaRs.Props.C10"],
     explanation="L0: nextBar = next on the documented field for every state and scalar; field-independence for all 22; one-price bars under explicit IEEE-true laws; DataItem getters are projections.")
prop("C11", ["TaRs.Props.C11"],
     explanation="L0: exact characterisation of every constructor (Err iff a period is 0; never panics for allocation-free ones up to any Nat, for windowed ones while 8n <= isize::MAX), accessors stable for the whole life, Display templates, Default = new(documented defaults).")
prop("C12", ["TaRs.Props.C12"],
     explanation="L0 theorem per indicator: from new, every sequence of next/nextBar/reset of any length returns normally for ANY scalar semantics; invariant WF by induction over the op list. clone/Debug/serialize returning normally is observed on the implementation only.")
prop("C13", ["TaRs.Props.C13", "TaRs.Round.SMA", "TaRs.Round.TauSMA", "TaRs.Round.SDMean", "TaRs.Round.SDVar", "TaRs.Round.TauSD", "TaRs.Round.MAD", "TaRs.Round.TauMAD", "TaRs.Round.WMA", "TaRs.Round.WMAWorst", "TaRs.Round.TauWMA", "TaRs.Round.MFI", "TaRs.Round.TauMFI", "TaRs.Round.CCI", "TaRs.Round.TauCCI"],
     explanation="exact half (theorem): accumulators equal the from-scratch window statistic after every stream of any length (SMA, WMA, SD, MAD, BB). Float half: for SMA a THEOREM under the standard model of floating-point arithmetic (Round/SMA, TauSMA: |fl x - x| <= u|x|, no overflow/underflow): after t <= 2·10^6 inputs bounded by M the generated SMA is within 3(t+1)u·M of the exact mean of the current window, and (3(t+1)u)^2 <= 1e-24 + 1e-30 t^3 at u = 2^-53, i.e. within tau(t)·M; likewise StandardDeviation's running mean = BollingerBands.average within 6k·u·M and its variance m2/count within 77(k+1)·u·M² of the exact window variance, never negative (Round/SDMean, SDVar, TauSD: both below tau(t) for every t <= 2·10^6 and every n; the clamp only moves m2 towards the exact value); MeanAbsoluteDeviation within (5k+2min(k,n)+10)·u·M, below tau(t) for every k and n (Round/MAD, TauMAD); WeightedMovingAverage within 4(k²/(min(k,n)+1)+k+2)·u·M (Round/WMA), which is below tau(t) only for k <= 4(n+1)² (or n >= 707) and EXCEEDS it for k >= 16(n+1)² (TauWMA.wma_exceeds), and the quadratic growth is attained inside the standard model (Round/WMAWorst.wma_worst, Tau.wma_worst_above_tau: 6e-6 > 2·tau after 2·10^6 inputs) — the theorem-level counterpart of the known finding WeightedMovingAverage:drift-marginal; MoneyFlowIndex: both running totals (total_positive/negative_money_flow, maintained by pop/push and never recomputed) are within 3·k·min(k,n)·u·M of the sums over exactly the last min(k,n) signed computed flows, M = largest single-bar flow, for every period and every stream of bars with non-negative computed raw flow (Round/MFI.mfi_totals_rounding; mfi_reading_rounding: when the window's total flow D is at least 4E the returned value, last three roundings included, is within 100·(2E/D + 12u) of the exact 100·S_P/D, i.e. accumulated error times the property's condition number c plus a few ulps); below tau(k)·M for every k when n <= 30 (TauMFI.mfi_tau), while for n = 1000 the WORST-CASE bound exceeds tau at k = 10^4 (TauMFI.mfi_bound_exceeds, stated) — that range is NOT a theorem; CommodityChannelIndex (Round/CCI.cci_rounding, composition of the SMA and MAD theorems through the L0 wiring lemma): after every stream of k bars with computed typical prices bounded by M the generated CCI has not panicked and returns 0 if d = 0, else fl(fl(tp − a)/fl(d·fl(0.015))) with a within 3(k+1)·u·M of the exact mean and d within (5k+2·min(k,n)+10)·u·M of the exact mean absolute deviation of exactly the last min(k,n) computed typical prices (both below tau(k)·M for every k and n by TauSMA/TauMAD), and quot_err bounds the quotient by 2·EN/D0 + 2·|q|·ED/D0 — component drift over the exact denominator 0.015·MAD, unbounded as the window flattens (that is where the known CCI findings live). Beyond these theorems: drift over 10^5..2·10^6-step runs measured on the implementation against double-double recomputation of the window.")
prop("C14", ["TaRs.Props.C14", "TaRs.Props.C14b"],
     explanation="L2: homogeneity/shift laws of the window statistics and their stream-level corollaries through the C01 theorems; bit-exactness for 2^k and 1e-9 otherwise are sampled on pairs of runs.")
prop("C15", ["TaRs.Props.C15", "TaRs.Props.C15Exact"],
     explanation="L0 simulation identities: each composite run over a stream equals the documented combination of separately constructed public parts run over the same stream (Option-valued, panics compared too). BB.average vs SMA is the exact-arithmetic theorem pair of C01.")
prop("C16", ["TaRs.Props.C16"],
     explanation="L0: verdict of build() for every setter sequence, getters return the last value, order irrelevance, NaN rejected under the IEEE hypothesis; all 10^5 lattice tuples enumerated on the implementation (exhaustive) and replayed on the model.")
prop("C17", ["TaRs.Props.C17", "TaRs.Props.C17b"],
     explanation="L2: after any history the output equals that of a fresh indicator fed the last n (n+1 for ROC, ER, MFI) inputs — SMA, WMA, SD, MAD, BB, CCI, ROC, ER, MFI, FastStochastic; Min/Max/FastStochastic order-only; f64 slack covered by the harness oracle.")
prop("C18", ["TaRs.Props.C18"],
     explanation="L0: the model's bincode length is a closed form in the parameters, invariant under next/reset, bounded by 256+64·Σperiods; real bincode length compared at every logged state; live heap bytes measured with a counting allocator.")
prop("C19", ["TaRs.Props.C19"], level="other", oracle=False, extra=_surface,
     explanation="Decided by rustc: the static-assertion crate /verif/surface (every bound the property lists, for every type, user types providing only the needed price traits, tuple conversions, TaError) is type-checked against /repo with and without the serde feature on every run. Lean additionally decides (kernel evaluation over the whole table regenerated from the source) that the derive/impl/field-type fact base matches the documented surface and that every field type is owned plain data; Rust's auto-trait rules are modelled, not verified.",
     rule="2 rustc type-checking runs (default features, serde); 12 table theorems")
