"""Per-property configuration of ./check (which Lean modules carry the theorems, texts for
the evidence file).  The oracle programs live in harness/src/props/<id>.rs."""

TB_COMMON = [
    "Lean 4.33 kernel (lake build; leanchecker in the thorough tier)",
    "rs2lean translator (Rust+syn): /repo/src -> lean/TaRs/Gen/*.lean, re-run on every check; validated (not proved) by bit-for-bit / byte-for-byte replay of the recorded implementation runs on the generated model at Float (tars_drv)",
    "Prelude/Rs.lean: Rust panic semantics (bounds checks, usize overflow checks, unwrap, vec! capacity overflow) as Option/Res",
    "Lean Float ops == Rust f64 ops on this platform (empirical, re-checked every run)",
    "harness oracles (Rust, double-double references) for the sampled part",
]

ASSUME_COMMON = [
    "theorems are about the generated model; the tie to the code is the translator (regenerated each run) plus the differential replay, both in the trusted base",
    "derive(Clone/Debug/Serialize/Deserialize) expansions, bincode, std::fmt and the allocator are modelled or observed, not verified",
]

PROPS = {}


def prop(pid, modules, level="proof", **kw):
    d = {"modules": modules, "level": level, "trusted_base": list(TB_COMMON), "assumptions": list(ASSUME_COMMON)}
    d.update(kw)
    PROPS[pid] = d


prop("C01", ["TaRs.Props.C01"],
     explanation="L2 theorems: the generated next of SMA/WMA/SD/MAD/Min/Max/BB computes the statistic of exactly the last min(t,n) inputs in exact arithmetic (X K); f64 rounding within tau(t) is sampled against double-double references.")
prop("C02", ["TaRs.Props.C02"],
     explanation="L0 theorems (any Scalar, hence f64 incl. NaN): EMA seeding/recursion, TrueRange branches, ATR/MACD/KC/CE wiring are literally the documented formulas in the documented operation order; tau(t) agreement with re-associated from-scratch evaluation is sampled.")
prop("C04", ["TaRs.Props.C04"],
     explanation="L0 theorem per indicator: on every well-formed (hence every reachable) state reset yields exactly the state new builds; parameters unchanged; idempotent. State equality needs no arithmetic, so NaN/inf histories are covered.")
prop("C12", ["TaRs.Props.C12"],
     explanation="L0 theorem per indicator: from new, every sequence of next/nextBar/reset of any length returns normally for ANY scalar semantics (inputs incl. NaN/inf are just values of F); invariant WF by induction over the op list. clone/Debug/serialize returning normally is observed on the implementation only.")
