#!/bin/bash
# oracle soak on the unchanged tree: every property × several seeds; prints only failures
T=/verif/build/tmp/soak; mkdir -p $T
tier=${1:-quick}; from=${2:-1}; to=${3:-10}
for p in ${SOAK_PROPS:-C01 C02 C03 C04 C05 C06 C07 C08 C09 C10 C11 C12 C13 C14 C15 C16 C17 C18}; do
  for s in $(seq $from $to); do
    /verif/build/harness/debug/harness prop $p $s $tier $T/$p.ops $T/$p.json > $T/$p.out 2>&1 || echo "$p seed $s: harness exit $?"
    python3 - $p $s $T/$p.json <<'PY'
import json,sys
p,s,f=sys.argv[1:4]
try:
    d=json.load(open(f))
except Exception as e:
    print(p,s,'NO REPORT',e); sys.exit()
for x in d['failures']:
    if x['key'] in ('CommodityChannelIndex:neutral-residue','MoneyFlowIndex:out-of-range-residue','CommodityChannelIndex:non-finite-residue-underflow','StandardDeviation:neutral-square-underflow','BollingerBands:neutral-square-underflow','WeightedMovingAverage:drift-marginal','WeightedMovingAverage:wma-drift-marginal'): continue
    print(p,'seed',s,'FAIL',x['key'],'|',x['msg'][:300]); print('    ',x['case'][:400])
PY
  done
done
echo soak-done
