#!/bin/bash
# Fast robustness probe: for each harmless patch, regenerate the model from the patched source into
# a PRIVATE copy of the Lean project and report which modules stop checking.  (./mutest.sh runs the
# full checks; this only answers "does a proof break?".)  usage: ./harmless_lean.sh [patch…]
set -u
V=/verif
W=$(mktemp -d /tmp/hlw.XXXXXX)
L=$(mktemp -d /tmp/hll.XXXXXX)
trap 'git -C /repo worktree remove --force "$W/r" 2>/dev/null; rm -rf "$W" "$L"' EXIT
cp -r $V/lean/. "$L"/
patches=(); for a in "$@"; do patches+=("$(readlink -f "$a")"); done; [ ${#patches[@]} -eq 0 ] && patches=($V/seeded/harmless/H*.diff)
for p in "${patches[@]}"; do
  git -C /repo worktree add -q --detach "$W/r" HEAD
  if ! git -C "$W/r" apply "$p"; then echo "$(basename $p): PATCH-DOES-NOT-APPLY"; git -C /repo worktree remove --force "$W/r"; continue; fi
  rej=$($V/build/rs2lean/release/rs2lean "$W/r/src" "$L/TaRs/Gen" 2>&1 >/dev/null | grep -c REJECT)
  out=$(cd "$L" && lake build TaRs 2>&1 | grep -o "^error: [^ ]*lean:[0-9]*" | sed "s/^error: //" | sort -u | tr '\n' ' ')
  echo "$(basename $p): rejects=$rej broken=[${out}]"
  git -C /repo worktree remove --force "$W/r"
done
